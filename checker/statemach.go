package main

// E5: state machines (lexer, symbol scanner, FOR expander, parser) and the
// producer/consumer protocol of the two goroutine-backed token streams.
//
// A machine is a named function type `type S func(*M) S`; its states are the
// package functions of that signature, its helpers the methods of M returning
// S, and its consuming primitive the method of M that pulls the next rune or
// token from the underlying reader.

import (
	"fmt"
	"go/types"
	"sort"
	"strings"

	"golang.org/x/tools/go/ssa"
)

func init() {
	register(&Rule{Name: "SM.progress", Min: 20, Doc: "no cycle of state transitions without consuming input; at EOF/Error every state reaches the stop state", Run: ruleSMProgress})
	register(&Rule{Name: "NEXT.sticky", Min: 6, Doc: "after the terminal token the look-ahead never changes", Run: ruleNextSticky})
	register(&Rule{Name: "PROD.term", Min: 10, Doc: "after sending EOF/Error a producer sends nothing more and stops", Run: ruleProdTerm})
	register(&Rule{Name: "PROD.uniform", Min: 2, Doc: "exactly one terminal token reaches the channel on every path through a producer", Run: ruleProdUniform})
	register(&Rule{Name: "PROD.consumer", Min: 4, Doc: "consumers stop receiving at the first terminal token; every producer created is drained; no other goroutines", Run: ruleProdConsumer})
	register(&Rule{Name: "PROD.shared", Min: 4, Doc: "producer and consumer share only the channel and flags ordered by the send/receive protocol", Run: ruleProdShared})
}

type machine struct {
	name    string
	stateT  *types.Named
	recvT   *types.Named
	states  []*ssa.Function
	helpers []*ssa.Function // methods of recvT returning stateT
	next    *ssa.Function
	isLexer bool // consumes runes (look-ahead is a rune, eof reported by next())
	tokF    string
	eofF    string
	run     *ssa.Function // goroutine body, if the machine is a producer
	chanF   string
	// states named by the constants of an enumerated type and dispatched by a switch in a
	// driver loop: constant -> the method that handles that state (other constants stop)
	enumStates map[int64]*ssa.Function
}

// isStop: the returned next-state value t ends the machine.
func (m *machine) isStop(t *T) bool {
	t = stripConv(t)
	if t.Op == "nil" {
		return true
	}
	return m.enumStates != nil && t.IsConst() && m.enumStates[t.C] == nil
}

var machinesMemo []*machine

func machines(w *World) []*machine {
	if machinesMemo != nil {
		return machinesMemo
	}
	sc := w.Lib.Types.Scope()
	for _, n := range sc.Names() {
		tn, ok := sc.Lookup(n).(*types.TypeName)
		if !ok {
			continue
		}
		nt, ok := tn.Type().(*types.Named)
		if !ok {
			continue
		}
		sig, ok := nt.Underlying().(*types.Signature)
		// a state function returns the next state first (possibly with more: an error, a flag)
		if !ok || sig.Params().Len() > 1 || sig.Results().Len() < 1 || !types.Identical(sig.Results().At(0).Type(), nt) {
			continue
		}
		var pt *types.Pointer
		methodStates := sig.Params().Len() == 0
		if methodStates {
			// states are methods bound to the machine (type S func() S): the machine is the
			// receiver type of the methods that return S
			for _, fn := range libFuncs(w) {
				fs := fn.Signature
				if fs.Recv() != nil && fs.Params().Len() == 0 && fs.Results().Len() >= 1 && types.Identical(fs.Results().At(0).Type(), nt) {
					if p, ok := fs.Recv().Type().(*types.Pointer); ok {
						pt = p
					}
				}
			}
			if pt == nil {
				continue
			}
		} else {
			p, ok := sig.Params().At(0).Type().(*types.Pointer)
			if !ok {
				continue
			}
			pt = p
		}
		rt, ok := pt.Elem().(*types.Named)
		if !ok {
			continue
		}
		m := &machine{name: rt.Obj().Name(), stateT: nt, recvT: rt}
		// the machine's own methods and those promoted from structs it embeds
		recvTypes := []types.Type{pt}
		var flat []*types.Var // fields, embedded structs flattened
		var flatten func(st *types.Struct)
		flatten = func(st *types.Struct) {
			for i := 0; i < st.NumFields(); i++ {
				f := st.Field(i)
				if f.Embedded() {
					if es, ok := f.Type().Underlying().(*types.Struct); ok {
						recvTypes = append(recvTypes, types.NewPointer(f.Type()))
						flatten(es)
						continue
					}
				}
				flat = append(flat, f)
			}
		}
		flatten(rt.Underlying().(*types.Struct))
		isRecv := func(t types.Type) bool {
			for _, r := range recvTypes {
				if types.Identical(t, r) {
					return true
				}
			}
			return false
		}
		for _, fn := range libFuncs(w) {
			s := fn.Signature
			if s.Recv() == nil && s.Params().Len() == 1 && s.Results().Len() >= 1 && types.Identical(s.Params().At(0).Type(), pt) && types.Identical(s.Results().At(0).Type(), nt) {
				m.states = append(m.states, fn)
			}
			if methodStates && s.Recv() != nil && types.Identical(s.Recv().Type(), pt) && s.Params().Len() == 0 && s.Results().Len() >= 1 && types.Identical(s.Results().At(0).Type(), nt) {
				m.states = append(m.states, fn)
				continue
			}
			if s.Recv() != nil && isRecv(s.Recv().Type()) {
				if s.Results().Len() >= 1 && types.Identical(s.Results().At(0).Type(), nt) {
					m.helpers = append(m.helpers, fn)
				}
				// consuming primitive: pulls from the underlying reader
				for _, b := range fn.Blocks {
					for _, in := range b.Instrs {
						if ci, ok := in.(ssa.CallInstruction); ok {
							c := ci.Common()
							if c.IsInvoke() && c.Method.Name() == "NextToken" {
								m.next = fn
							}
							if cal := c.StaticCallee(); cal != nil && cal.Name() == "ReadRune" {
								m.next = fn
								m.isLexer = true
							}
							if _, isGo := in.(*ssa.Go); isGo {
								_ = isGo
							}
						}
					}
				}
			}
		}
		for _, f := range flat {
			switch {
			case typeName(f.Type()) == "token" || (m.isLexer && typeName(f.Type()) == "rune" || f.Type().String() == "int32"):
				if m.tokF == "" {
					m.tokF = f.Name()
				}
			}
			if _, ok := f.Type().Underlying().(*types.Chan); ok {
				m.chanF = f.Name()
			}
		}
		// at-EOF flag: the bool field next() tests first
		if m.next != nil {
			ps, _ := w.Paths(m.next)
			for _, p := range ps {
				if len(p.Conds) > 0 {
					a := stripConv(p.Conds[0].Atom)
					if a.Op == "sel" && a.A[0].Op == "deref" {
						m.eofF = a.S
					}
				}
			}
		}
		// goroutine body
		for _, fn := range libFuncs(w) {
			for _, b := range fn.Blocks {
				for _, in := range b.Instrs {
					if g, ok := in.(*ssa.Go); ok {
						if cal := g.Call.StaticCallee(); cal != nil && cal.Signature.Recv() != nil && types.Identical(cal.Signature.Recv().Type(), pt) {
							m.run = cal
						}
					}
				}
			}
		}
		sort.Slice(m.states, func(i, j int) bool { return m.states[i].Name() < m.states[j].Name() })
		if len(m.states) > 0 && m.next != nil {
			machinesMemo = append(machinesMemo, m)
		}
	}
	machinesMemo = append(machinesMemo, enumMachines(w)...)
	sort.Slice(machinesMemo, func(i, j int) bool { return machinesMemo[i].name < machinesMemo[j].name })
	for _, m := range machinesMemo {
		w.MarkBoundary("state function of machine "+m.name, m.states...)
		w.MarkBoundary("consuming primitive of machine "+m.name, m.next, m.run)
	}
	return machinesMemo
}

// transition: one way through a state function (with a helper call at the
// return inlined).  Facts concern the look-ahead as it was on entry, i.e.
// before the first call of the consuming primitive.
type transition struct {
	from     *ssa.Function
	to       string // state name, "" for nil (stop), "<loop>" for an inner loop iteration, "?" unknown
	consumes bool
	preSet   uint64          // token machines: possible types of the entry look-ahead on this path
	atoms    map[string]bool // rune machine: predicates on the entry look-ahead rune
	sends    []sendEv
	p, hp    *Path
	pos      string
	bounded  bool // "<loop>": a range / counted loop, not driven by the input
	loopLook bool // "<loop>": the loop condition tests the look-ahead
}

type sendEv struct {
	val *T
	ver int
	p   *Path
}

func (m *machine) isNextCall(e *Event) bool {
	return e.Kind == "call" && e.Callee == m.next
}

func selfKey(t *T, recv string) string {
	n := rewrite(t, func(x *T) *T {
		if x.Op == "p" && x.S == recv {
			return &T{Op: "p", S: "self"}
		}
		return nil
	})
	return stripEpoch(n).Key()
}

// lookTok: t is the look-ahead token/rune storage self.tokF (any epoch).
func (m *machine) lookTok(t *T) bool {
	t = stripConv(t)
	if t == nil || t.Op != "sel" || t.S != m.tokF {
		return false
	}
	b := t.A[0]
	for b.Op == "sel" {
		b = b.A[0] // a field of a struct the machine embeds
	}
	return b.Op == "deref" && b.A[0].Op == "p"
}

// lookTyp: t is self.tokF.typ
func (m *machine) lookTyp(t *T) bool {
	t = stripConv(t)
	return t != nil && t.Op == "sel" && t.S == "typ" && m.lookTok(t.A[0])
}

func verOf(t *T) int {
	// consumption epoch of the first heap load inside t
	v := -1
	t.walk(func(x *T) bool {
		if v < 0 && x.E != 0 {
			v = (x.E - 1) / 1000
		}
		return v < 0
	})
	return v
}

// predSet: token types for which the token predicate fn may return `want`.
var predMemo = map[string]uint64{}

func predSet(w *World, callee string, want bool) uint64 {
	k := fmt.Sprintf("%s/%v", callee, want)
	if s, ok := predMemo[k]; ok {
		return s
	}
	all, _ := w.enumDomain(w.NamedType("tokenType"))
	predMemo[k] = all // recursion guard
	var fn *ssa.Function
	for _, f := range libFuncs(w) {
		if fnKey(f) == callee {
			fn = f
		}
	}
	if fn == nil || len(fn.Params) != 1 || typeName(fn.Params[0].Type()) != "token" {
		return all
	}
	paths, err := w.Paths(fn)
	if err != nil {
		return all
	}
	recv := fn.Params[0].Name()
	var res uint64
	for _, p := range paths {
		if p.End != "ret" || len(p.Ret) != 1 {
			return all
		}
		set := all
		for key, s := range p.Sets {
			t := p.SetTerms[key]
			if t.Op == "sel" && t.S == "typ" && t.A[0].Op == "p" && t.A[0].S == recv {
				set &= s
			}
		}
		// nested predicates on the same token
		for _, cd := range p.Conds {
			a := cd.Atom
			if a.Op == "call" && len(a.A) == 1 && a.A[0].Op == "p" && a.A[0].S == recv {
				set &= predSet(w, a.S, cd.Val)
			}
		}
		r := stripConv(p.Ret[0])
		switch {
		case r.IsConst():
			if (r.C != 0) == want {
				res |= set
			}
		case r.Op == "call" && len(r.A) == 1 && r.A[0].Op == "p":
			res |= set & predSet(w, r.S, want)
		default:
			res |= set
		}
	}
	predMemo[k] = res
	return res
}

// lookFacts: possible entry look-ahead types and rune predicates on a path,
// restricted to loads made at consumption epoch <= maxVer.
func (m *machine) lookFacts(w *World, p *Path, recv string, maxVer int) (set uint64, atoms map[string]bool, feasible bool) {
	all, _ := w.enumDomain(w.NamedType("tokenType"))
	set = all
	atoms = map[string]bool{}
	feasible = true
	for k, s := range p.Sets {
		t := p.SetTerms[k]
		if m.lookTyp(t) && verOf(t) <= maxVer {
			set &= s
		}
	}
	for _, cd := range p.Conds {
		a := cd.Atom
		if !a.contains(func(x *T) bool { return m.lookTok(x) }) || verOf(a) > maxVer {
			continue
		}
		if m.isLexer {
			k := selfKey(a, recv)
			if old, ok := atoms[k]; ok && old != cd.Val {
				feasible = false
			}
			atoms[k] = cd.Val
			continue
		}
		if a.Op == "call" && len(a.A) == 1 && m.lookTok(a.A[0]) {
			set &= predSet(w, a.S, cd.Val)
		}
	}
	if !m.isLexer && set == 0 {
		feasible = false
	}
	if m.isLexer && !eqConsistent(atoms) {
		feasible = false
	}
	return
}

func (m *machine) transitions(w *World, fn *ssa.Function) ([]*transition, string) {
	paths, err := w.Paths(fn)
	if err != nil {
		return nil, err.Error()
	}
	recv := fn.Params[0].Name()
	const inf = 1 << 30
	var out []*transition
	for _, p := range paths {
		if p.End == "enterloop" {
			continue
		}
		base := &transition{from: fn, p: p, pos: w.Pos(fn.Pos())}
		firstNext := inf
		hdr := -1
		lastEnter := -1
		if p.End == "backedge" {
			hdr = int(p.Events[len(p.Events)-1].Res.C)
			for i, e := range p.Events {
				if e.Kind == "enterloop" && e.Res != nil && int(e.Res.C) == hdr {
					lastEnter = i
				}
			}
		}
		for i := range p.Events {
			e := &p.Events[i]
			if m.isNextCall(e) {
				if i > lastEnter {
					base.consumes = true
				}
				if e.Ver < firstNext {
					firstNext = e.Ver
				}
			}
			if v, ok := sendOf(w, e); ok && i > lastEnter {
				base.sends = append(base.sends, sendEv{v, e.Ver, p})
			}
		}
		var feas bool
		base.preSet, base.atoms, feas = m.lookFacts(w, p, recv, firstNext)
		if !feas {
			continue
		}
		if len(p.Conds) > 0 {
			base.pos = w.Pos(p.Conds[len(p.Conds)-1].Pos)
		}
		switch p.End {
		case "backedge":
			base.to = "<loop>"
			body := loopBody(fn, hdr)
			for _, cd := range p.Conds {
				if !body[cd.Block] {
					continue
				}
				if cd.Atom.contains(func(x *T) bool { return m.lookTok(x) }) {
					base.loopLook = true
				}
			}
			// bounded: a loop variable compared with a bound and stepped by one, or a range loop
			be := p.Events[len(p.Events)-1]
			for _, a := range be.Args {
				l := linearOf(a)
				if l.Const == 1 && len(l.Coef) == 1 {
					for _, at := range l.Atom {
						if at.Op == "loopvar" {
							lv := at.Key()
							for _, cd := range p.Conds {
								if body[cd.Block] && (cd.Atom.Op == "lt" || cd.Atom.Op == "le") && cd.Atom.contains(func(x *T) bool { return x.Key() == lv }) {
									base.bounded = true
								}
							}
						}
					}
				}
			}
			out = append(out, base)
		case "ret":
			r := stripConv(p.Ret[0])
			switch {
			case r.Op == "nil":
				base.to = ""
				out = append(out, base)
			case r.Op == "fn":
				base.to = r.S
				out = append(out, base)
			case r.Op == "closure":
				// a state made on the spot (a state constructor's function literal)
				base.to = closureKey(r)
				out = append(out, base)
			case m.enumStates != nil && r.IsConst():
				base.to = ""
				if f := m.enumStates[r.C]; f != nil {
					base.to = fnKey(f)
				}
				out = append(out, base)
			case r.Op == "call":
				var h *ssa.Function
				for _, hh := range m.helpers {
					if fnKey(hh) == r.S {
						h = hh
					}
				}
				// ... or a plain function of the module that is handed the machine first and answers
				// with a state (a state called directly, or a piece split off one)
				if h == nil {
					if g := w.funcByKey(r.S); g != nil && len(g.Blocks) > 0 && w.inPkgs(g) && len(g.Params) >= 1 && len(r.A) == len(g.Params) {
						if pt, ok := g.Params[0].Type().(*types.Pointer); ok && types.Identical(pt.Elem(), m.recvT) && g.Signature.Results().Len() >= 1 && types.Identical(g.Signature.Results().At(0).Type(), m.stateT) {
							h = g
						}
					}
				}
				if h == nil {
					base.to = "?"
					out = append(out, base)
					continue
				}
				hps, err := w.Paths(h)
				if err != nil {
					base.to = "?"
					out = append(out, base)
					continue
				}
				hrecv := h.Params[0].Name()
				// the helper call is the last call event of p
				callVer := 0
				for i := range p.Events {
					if p.Events[i].Kind == "call" && p.Events[i].Callee == h {
						callVer = p.Events[i].Ver
					}
				}
				for _, hp := range hps {
					if hp.End != "ret" {
						continue
					}
					t := *base
					t.hp = hp
					t.sends = append([]sendEv(nil), base.sends...)
					t.atoms = map[string]bool{}
					for k, v := range base.atoms {
						t.atoms[k] = v
					}
					hFirst := inf
					hcons := false
					for i := range hp.Events {
						e := &hp.Events[i]
						if m.isNextCall(e) {
							hcons = true
							if e.Ver < hFirst {
								hFirst = e.Ver
							}
						}
						if sv, ok := sendOf(w, e); ok {
							v := sv
							sp := hp
							ver := callVer + 1 + e.Ver // after everything in p
							if v.Op == "p" {
								for ai, prm := range h.Params {
									if prm.Name() == v.S && ai < len(r.A) {
										v = r.A[ai]
										sp = p
										ver = callVer
									}
								}
							}
							t.sends = append(t.sends, sendEv{v, ver, sp})
						}
					}
					if !base.consumes {
						hs, ha, hf := m.lookFacts(w, hp, hrecv, hFirst)
						if !hf {
							continue
						}
						t.preSet &= hs
						bad := false
						for k, v := range ha {
							if old, ok := t.atoms[k]; ok && old != v {
								bad = true
							}
							t.atoms[k] = v
						}
						if bad || (!m.isLexer && t.preSet == 0) {
							continue
						}
					}
					t.consumes = base.consumes || hcons
					hr := stripConv(hp.Ret[0])
					switch {
					case hr.Op == "nil":
						t.to = ""
					case hr.Op == "fn":
						t.to = hr.S
					case hr.Op == "closure":
						t.to = closureKey(hr)
					case hr.Op == "p":
						t.to = "?"
						for ai, prm := range h.Params {
							if prm.Name() == hr.S && ai < len(r.A) {
								a := stripConv(r.A[ai])
								if a.Op == "fn" {
									t.to = a.S
								} else if a.Op == "closure" {
									t.to = closureKey(a)
								} else if a.Op == "nil" {
									t.to = ""
								}
							}
						}
					default:
						t.to = "?"
					}
					tt := t
					out = append(out, &tt)
				}
			default:
				base.to = "?"
				out = append(out, base)
			}
		default:
			base.to = "?"
			out = append(out, base)
		}
	}
	return out, ""
}

// closureKey: the key of the function literal a closure term was made from.
func closureKey(t *T) string {
	s := strings.ReplaceAll(t.S, "github.com/bobertlo/gmars/cmd/gmars.", "cmd.")
	return strings.ReplaceAll(s, "github.com/bobertlo/gmars.", "")
}

type machineGraph struct {
	typeDepth  int
	m          *machine
	trans      map[string][]*transition
	names      []string
	entry      map[string]uint64 // possible look-ahead types on entry to each state
	init       string
	errs       []string
	containers map[string]uint64
}

var graphMemo = map[*machine]*machineGraph{}

func buildGraph(w *World, m *machine) *machineGraph {
	if g, ok := graphMemo[m]; ok {
		return g
	}
	g := &machineGraph{m: m, trans: map[string][]*transition{}, entry: map[string]uint64{}}
	graphMemo[m] = g
	for _, s := range m.states {
		ts, msg := m.transitions(w, s)
		if msg != "" {
			g.errs = append(g.errs, s.Name()+": "+msg)
			continue
		}
		g.trans[fnKey(s)] = ts
		g.names = append(g.names, fnKey(s))
	}
	sort.Strings(g.names)
	// initial state: the state a driver loop starts with
	for _, fn := range libRoots(w) {
		paths, err := w.Paths(fn)
		if err != nil {
			continue
		}
		for _, p := range paths {
			for _, e := range p.Events {
				if e.Kind == "enterloop" {
					for _, a := range e.Args {
						if a.Op == "fn" {
							if _, ok := g.trans[a.S]; ok {
								g.init = a.S
							}
						}
					}
				}
			}
		}
	}
	all, _ := w.enumDomain(w.NamedType("tokenType"))
	if g.init != "" {
		g.entry[g.init] = all
	} else {
		for _, n := range g.names {
			g.entry[n] = all
		}
	}
	for changed := true; changed; {
		changed = false
		for _, n := range g.names {
			for _, t := range g.trans[n] {
				if t.to == "" || t.to == "?" || t.to == "<loop>" {
					continue
				}
				var add uint64
				if t.consumes {
					add = all
				} else {
					add = g.entry[n] & t.preSet
				}
				if g.entry[t.to]|add != g.entry[t.to] {
					g.entry[t.to] |= add
					changed = true
				}
			}
		}
	}
	return g
}

func ruleSMProgress(w *World, r *RuleResult) {
	ms := machines(w)
	if len(ms) < 4 {
		r.undecided("machines", "-", fmt.Sprintf("expected the lexer, symbol scanner, FOR expander and parser state machines; found %d", len(ms)))
	}
	tt := map[string]int64{}
	for v, n := range w.EnumValues("tokenType") {
		tt[n] = v
	}
	for _, m := range ms {
		g := buildGraph(w, m)
		for _, e := range g.errs {
			r.undecided(m.name+"/paths", "-", e)
		}
		posOf := func(state string) string {
			for _, s := range m.states {
				if fnKey(s) == state {
					return w.Pos(s.Pos())
				}
			}
			return "-"
		}
		for _, n := range g.names {
			for _, t := range g.trans[n] {
				if t.to == "?" {
					r.undecided(m.name+"/"+n+"/next-state", t.pos, "a return of "+n+" is neither nil, a state function, nor a helper returning one of those")
				}
				if t.to == "<loop>" && !t.consumes && !t.bounded && !t.loopLook {
					r.undecided(m.name+"/"+n+"/inner-loop", t.pos, "an inner loop of "+n+" neither consumes input nor is a recognisable bounded (range / counted) loop")
				}
			}
		}
		// Mode 1: no cycle of non-consuming transitions with mutually consistent look-ahead facts
		for _, start := range g.names {
			found := ""
			var dfs func(cur string, set uint64, atoms map[string]bool, stack []string)
			dfs = func(cur string, set uint64, atoms map[string]bool, stack []string) {
				if found != "" || len(stack) > len(g.names)+1 {
					return
				}
				for _, t := range g.trans[cur] {
					if t.consumes || t.to == "" || t.to == "?" {
						continue
					}
					if t.to == "<loop>" && (t.bounded || !t.loopLook) {
						continue // bounded loop over stored data: terminates by construction
					}
					ns := set & t.preSet
					if !m.isLexer && ns == 0 {
						continue
					}
					na := map[string]bool{}
					ok := true
					for k, v := range atoms {
						na[k] = v
					}
					for k, v := range t.atoms {
						if old, have := na[k]; have && old != v {
							ok = false
						}
						na[k] = v
					}
					if !ok || !eqConsistent(na) {
						continue
					}
					if t.to == "<loop>" {
						if cur == start {
							found = strings.Join(append(stack, cur+" (inner loop iteration)"), " -> ")
							return
						}
						continue
					}
					if t.to == start {
						found = strings.Join(append(append(stack, cur), t.to), " -> ")
						return
					}
					onStack := false
					for _, s := range append(stack, cur) {
						if s == t.to {
							onStack = true // a cycle not through the start state: reported at its own members
						}
					}
					if onStack {
						continue
					}
					dfs(t.to, ns, na, append(append([]string(nil), stack...), cur))
				}
			}
			dfs(start, g.entry[start], map[string]bool{}, nil)
			key := m.name + "/no-idle-cycle/" + start
			if found != "" {
				r.bad(key, posOf(start), "the state machine can cycle "+found+" without consuming any input and with mutually consistent tests on the look-ahead: it never terminates on such input")
			} else {
				r.ok(key, posOf(start), "every cycle through this state consumes input or is contradictory on the look-ahead")
			}
		}
		// Mode 2: terminal look-ahead
		if m.isLexer {
			for _, s := range append(append([]*ssa.Function(nil), m.states...), m.helpers...) {
				paths, _ := w.Paths(s)
				d := newDedup(r)
				for _, p := range paths {
					var calls []*Event
					for i := range p.Events {
						if m.isNextCall(&p.Events[i]) {
							calls = append(calls, &p.Events[i])
						}
					}
					for ci, ce := range calls {
						eofT := &T{Op: "ext", C: 2, A: []*T{ce.Res}}
						tested, isEOF := false, false
						for _, cd := range p.Conds {
							if cd.Atom.Key() == eofT.Key() {
								tested, isEOF = true, cd.Val
							}
						}
						key := fmt.Sprintf("%s/%s/eof-of-next#%d", m.name, s.Name(), ci+1)
						pos := w.Pos(instrPosE(ce))
						switch {
						case !tested && p.End == "ret" && stripConv(p.Ret[0]).Op == "nil":
							d.add(true, key, pos, "stops right after", "")
						case !tested && carriedAndTested(w, s, paths, p, eofT):
							d.add(true, key, pos, "the end-of-input result is carried to the loop test, which leaves the loop on it and stops", "")
						case !tested:
							d.add(false, key, pos, "", "the end-of-input result of next() is ignored on a path that keeps going: at EOF the look-ahead stops changing and the state loops forever")
						case isEOF:
							stops := p.End == "ret" && stripConv(p.Ret[0]).Op == "nil" && ci == len(calls)-1
							d.add(stops, key, pos, "on end of input the state stops", "on end of input the state does not stop (returns another state, loops, or calls next() again)")
						default:
							d.add(true, key, pos, "end-of-input result tested", "")
						}
					}
				}
				d.flush()
			}
			continue
		}
		eofBit := uint64(1) << uint(tt["tokEOF"])
		for _, term := range []string{"tokEOF", "tokError"} {
			bit := uint64(1) << uint(tt[term])
			feasible := func(t *transition) bool {
				for _, p := range []*Path{t.p, t.hp} {
					if p == nil {
						continue
					}
					for k, set := range p.Sets {
						x := p.SetTerms[k]
						if m.lookTyp(x) && set&bit == 0 {
							return false
						}
						// the token returned by next() at the end of input is the stuck one (or EOF)
						if x.Op == "sel" && x.S == "typ" && x.A[0].Op == "call" && x.A[0].S == fnKey(m.next) && set&(bit|eofBit) == 0 {
							return false
						}
					}
					for _, cd := range p.Conds {
						a := cd.Atom
						if a.Op == "call" && len(a.A) == 1 && m.lookTok(a.A[0]) {
							if predSet(w, a.S, cd.Val)&bit == 0 {
								return false
							}
						}
					}
				}
				return true
			}
			for _, start := range g.names {
				if g.entry[start]&bit == 0 {
					r.ok(fmt.Sprintf("%s/stops-at-%s/%s", m.name, term, start), posOf(start), "never entered with this look-ahead")
					continue
				}
				found := ""
				var dfs func(cur string, stack []string)
				dfs = func(cur string, stack []string) {
					if found != "" {
						return
					}
					for _, t := range g.trans[cur] {
						if !feasible(t) || t.to == "" || t.to == "?" {
							continue
						}
						if t.to == "<loop>" {
							if t.bounded || !t.loopLook {
								continue
							}
							found = strings.Join(append(stack, cur+" (inner loop)"), " -> ")
							return
						}
						for _, s := range append(stack, cur) {
							if s == t.to {
								found = strings.Join(append(append(stack, cur), t.to), " -> ")
								return
							}
						}
						dfs(t.to, append(append([]string(nil), stack...), cur))
					}
				}
				dfs(start, nil)
				key := fmt.Sprintf("%s/stops-at-%s/%s", m.name, term, start)
				if found != "" {
					r.bad(key, posOf(start), fmt.Sprintf("with the look-ahead stuck at %s (next() no longer advances) the machine cycles %s: it never stops", term, found))
				} else {
					r.ok(key, posOf(start), "reaches the stop state when the look-ahead is "+term)
				}
			}
		}
	}
}

func ruleNextSticky(w *World, r *RuleResult) {
	tt := map[string]int64{}
	for v, n := range w.EnumValues("tokenType") {
		tt[n] = v
	}
	for _, m := range machines(w) {
		if m.next == nil || m.eofF == "" {
			r.undecided(m.name+"/next", "-", "consuming primitive or its at-EOF flag unresolved")
			continue
		}
		paths, err := w.Paths(m.next)
		if err != nil {
			r.undecided(m.name+"/next", w.Pos(m.next.Pos()), err.Error())
			continue
		}
		pos := w.Pos(m.next.Pos())
		d := newDedup(r)
		for _, p := range paths {
			atEOF, known := false, false
			for _, cd := range p.Conds {
				a := stripConv(cd.Atom)
				if a.Op == "sel" && a.S == m.eofF {
					atEOF, known = cd.Val, true
				}
			}
			storesTok, storesFlag := false, false
			for _, e := range p.Events {
				if e.Kind == "store" && e.LV.Op == "sel" {
					if e.LV.S == m.tokF {
						storesTok = true
					}
					if e.LV.S == m.eofF && e.Val.IsConstVal(1) {
						storesFlag = true
					}
				}
			}
			if !known {
				d.add(false, m.name+"/next/flag-tested", pos, "", "a path of next() does not test the at-EOF flag first")
				continue
			}
			if atEOF {
				d.add(!storesTok, m.name+"/next/frozen-after-eof", pos, "at EOF the look-ahead is left untouched", "next() overwrites the look-ahead although the at-EOF flag is set")
				continue
			}
			// reader failed
			failed := hasCond(p, func(a *T, v bool) bool { return a.Op == "eq" && !v && a.A[1].Op == "nil" && a.A[0].Op == "ext" })
			if failed {
				d.add(storesFlag && !storesTok, m.name+"/next/reader-error", pos, "a failing reader sets the flag and keeps the look-ahead", "when the underlying reader fails next() does not (set the at-EOF flag and keep the look-ahead)")
				continue
			}
			if !m.isLexer {
				// terminal token fetched: flag set (or the reader is known to fail afterwards)
				term := false
				for k, set := range p.Sets {
					t := p.SetTerms[k]
					if t.Op == "sel" && t.S == "typ" && (set == 1<<uint(tt["tokEOF"]) || set == 1<<uint(tt["tokError"])) {
						term = true
					}
				}
				if term {
					d.add(storesFlag, m.name+"/next/terminal-sets-flag", pos, "fetching EOF/Error sets the at-EOF flag", "next() stores a terminal token without setting the at-EOF flag")
				}
			}
		}
		// machines whose next() does not inspect the token type rely on the reader failing after the last token
		inspects := false
		for _, p := range paths {
			for k := range p.Sets {
				if t := p.SetTerms[k]; t.Op == "sel" && t.S == "typ" {
					inspects = true
				}
			}
		}
		if !m.isLexer && !inspects {
			bt := Asm(w).BufNext
			good := false
			if bt != nil {
				ps, _ := w.Paths(bt)
				for _, p := range ps {
					if p.End == "ret" && len(p.Ret) == 2 && p.Ret[1].Op != "nil" && hasCond(p, func(a *T, v bool) bool { return a.Op == "le" && v }) {
						good = true
					}
				}
			}
			d.add(good, m.name+"/next/reader-fails-after-last", pos, "next() does not look at the token type, but the buffered reader returns an error once exhausted, which sets the flag", "next() neither detects the terminal token nor can rely on the reader failing after the last token")
		}
		d.flush()
	}
}

// ---------------------------------------------------------------- producers

func termBits(w *World) uint64 {
	var b uint64
	for v, n := range w.EnumValues("tokenType") {
		if n == "tokEOF" || n == "tokError" {
			b |= 1 << uint(v)
		}
	}
	return b
}

func producerFuncs(w *World, m *machine) map[*ssa.Function]bool {
	out := map[*ssa.Function]bool{}
	var visit func(f *ssa.Function)
	visit = func(f *ssa.Function) {
		if f == nil || out[f] || f.Pkg != w.SLib {
			return
		}
		out[f] = true
		for _, b := range f.Blocks {
			for _, in := range b.Instrs {
				if ci, ok := in.(ssa.CallInstruction); ok {
					visit(ci.Common().StaticCallee())
				}
			}
		}
	}
	visit(m.run)
	for _, s := range m.states {
		visit(s)
	}
	return out
}

// typeOnPath: possible types of a token value on a path (bitmask).
func (g *machineGraph) typeOnPath(w *World, v *T, p *Path, state string, firstNext int) uint64 {
	m := g.m
	all, _ := w.enumDomain(w.NamedType("tokenType"))
	if s, ok := tokenTypeOf(w, v); ok {
		return s
	}
	v = stripConv(v)
	if v.Op == "p" {
		set := all
		for k, s := range p.Sets {
			x := p.SetTerms[k]
			if x.Op == "sel" && x.S == "typ" && x.A[0].Op == "p" && x.A[0].S == v.S {
				set &= s
			}
		}
		return set
	}
	if m.lookTok(v) {
		ver := verOf(v)
		set := all
		for k, s := range p.Sets {
			x := p.SetTerms[k]
			if m.lookTyp(x) && verOf(x) == ver {
				set &= s
			}
		}
		for _, cd := range p.Conds {
			a := cd.Atom
			if a.Op == "call" && len(a.A) == 1 && m.lookTok(a.A[0]) && verOf(a) == ver {
				set &= predSet(w, a.S, cd.Val)
			}
		}
		if ver <= firstNext {
			if e, ok := g.entry[state]; ok {
				set &= e
			}
		}
		return set
	}
	// element of a []token field of the machine: union over everything appended to it
	if v.Op == "elem" {
		if b := stripConv(v.A[0]); b.Op == "sel" && b.A[0].Op == "deref" && b.A[0].A[0].Op == "p" {
			return g.containerTypes(w, b.S)
		}
	}
	// the token a function of the module hands back: one of the tokens it builds, or the
	// token it was given (as narrowed by its own tests on the way to that return)
	if v.Op == "call" {
		if callee := w.funcByKey(v.S); callee != nil && len(callee.Blocks) > 0 && w.inPkgs(callee) && len(v.A) == len(callee.Params) && g.typeDepth < 3 {
			cps, err := w.Paths(callee)
			if err == nil {
				g.typeDepth++
				defer func() { g.typeDepth-- }()
				var set uint64
				for _, cp := range cps {
					if cp.End != "ret" || len(cp.Ret) == 0 {
						continue
					}
					rv := stripConv(cp.Ret[0])
					if s, ok := tokenTypeOf(w, rv); ok {
						set |= s
						continue
					}
					if rv.Op == "p" {
						k := -1
						for i, prm := range callee.Params {
							if prm.Name() == rv.S {
								k = i
							}
						}
						if k < 0 {
							return all
						}
						s := g.typeOnPath(w, v.A[k], p, state, firstNext)
						for sk, ss := range cp.Sets {
							x := cp.SetTerms[sk]
							if x.Op == "sel" && x.S == "typ" && x.A[0].Op == "p" && x.A[0].S == rv.S {
								s &= ss
							}
						}
						set |= s
						continue
					}
					return all
				}
				return set
			}
		}
	}
	return all
}

func (g *machineGraph) containerTypes(w *World, field string) uint64 {
	if g.containers == nil {
		g.containers = map[string]uint64{}
	}
	if s, ok := g.containers[field]; ok {
		return s
	}
	all, _ := w.enumDomain(w.NamedType("tokenType"))
	g.containers[field] = all // recursion guard
	var res uint64
	found := false
	for fn := range producerFuncsOrStates(w, g.m) {
		paths, err := w.Paths(fn)
		if err != nil {
			continue
		}
		const inf = 1 << 30
		for _, p := range paths {
			firstNext := inf
			for i := range p.Events {
				if g.m.isNextCall(&p.Events[i]) && p.Events[i].Ver < firstNext {
					firstNext = p.Events[i].Ver
				}
			}
			for i := range p.Events {
				e := &p.Events[i]
				if e.Kind != "builtin" || e.Method != "append" || len(e.Args) != 2 {
					continue
				}
				// result stored into the field?
				stored := false
				for j := i + 1; j < len(p.Events); j++ {
					e2 := &p.Events[j]
					if e2.Kind == "store" && e2.LV.Op == "sel" && e2.LV.S == field && e2.Val.Key() == e.Res.Key() {
						stored = true
					}
				}
				if !stored {
					continue
				}
				found = true
				for _, x := range elementsOf(p, e.Args[1]) {
					res |= g.typeOnPath(w, x, p, fnKey(fn), firstNext)
				}
				if len(elementsOf(p, e.Args[1])) == 0 {
					res = all
				}
			}
		}
	}
	if !found {
		res = all
	}
	g.containers[field] = res
	return res
}

func producerFuncsOrStates(w *World, m *machine) map[*ssa.Function]bool {
	out := map[*ssa.Function]bool{}
	for _, s := range m.states {
		out[s] = true
	}
	for _, h := range m.helpers {
		out[h] = true
	}
	return out
}

func (g *machineGraph) sendType(w *World, t *transition, s sendEv) uint64 {
	const inf = 1 << 30
	firstNext := inf
	for i := range s.p.Events {
		if g.m.isNextCall(&s.p.Events[i]) && s.p.Events[i].Ver < firstNext {
			firstNext = s.p.Events[i].Ver
		}
	}
	state := fnKey(t.from)
	if s.p != t.p {
		// a send inside the inlined helper: its look-ahead is the entry one only if the caller path did not consume
		consumedBefore := false
		for i := range t.p.Events {
			if g.m.isNextCall(&t.p.Events[i]) {
				consumedBefore = true
			}
		}
		if consumedBefore {
			state = "<unknown>"
		}
	}
	res := g.typeOnPath(w, s.val, s.p, state, firstNext)
	if v := stripConv(s.val); g.m.lookTok(v) && state != "<unknown>" && verOf(v) <= firstNext {
		res &= t.preSet
	}
	return res
}

func ruleProdTerm(w *World, r *RuleResult) {
	tb := termBits(w)
	for _, m := range machines(w) {
		if m.run == nil {
			continue
		}
		g := buildGraph(w, m)
		for _, n := range g.names {
			d := newDedup(r)
			for _, t := range g.trans[n] {
				for i, sv := range t.sends {
					st := g.sendType(w, t, sv)
					if st&tb == 0 {
						continue
					}
					onlyTerm := st&^tb == 0
					last := i == len(t.sends)-1
					stops := t.to == ""
					if onlyTerm {
						d.add(last && stops, fmt.Sprintf("%s/%s/after-terminal-send", m.name, n), t.pos, "terminal token is the last send and the state stops", "after sending a terminal token (EOF/Error) the state "+map[bool]string{true: "sends again", false: "continues (" + t.to + ")"}[!last]+": the consumer has stopped receiving, so the producer blocks forever (leaked goroutine)")
					} else if !(last && stops) {
						d.add(false, fmt.Sprintf("%s/%s/maybe-terminal-send", m.name, n), t.pos, "", "a token whose type may be EOF or Error is sent on a path that keeps sending/looping: if it is terminal the consumer has stopped and the producer blocks (or loops) forever")
					}
				}
			}
			d.flush()
			r.ok(m.name+"/"+n+"/analysed", "-", fmt.Sprintf("%d transitions, entry look-ahead types %b", len(g.trans[n]), g.entry[n]))
		}
	}
}

func ruleProdUniform(w *World, r *RuleResult) {
	tb := termBits(w)
	for _, m := range machines(w) {
		if m.run == nil {
			continue
		}
		// stop transitions: did they send a terminal token?
		var withTerm, without []string
		g := buildGraph(w, m)
		for _, s := range m.states {
			for _, t := range g.trans[fnKey(s)] {
				if t.to != "" {
					continue
				}
				sent := false
				for _, v := range t.sends {
					if st := g.sendType(w, t, v); st&tb != 0 && st&^tb == 0 {
						sent = true
					}
				}
				if sent {
					withTerm = append(withTerm, s.Name())
				} else {
					without = append(without, s.Name())
				}
			}
		}
		uniq := func(xs []string) []string {
			m := map[string]bool{}
			var o []string
			for _, x := range xs {
				if !m[x] {
					m[x] = true
					o = append(o, x)
				}
			}
			sort.Strings(o)
			return o
		}
		withTerm, without = uniq(withTerm), uniq(without)
		// run's post-loop behaviour
		paths, err := w.Paths(m.run)
		if err != nil {
			r.undecided(m.name+"/run", w.Pos(m.run.Pos()), err.Error())
			continue
		}
		pos := w.Pos(m.run.Pos())
		postSends, guarded := 0, false
		closes := false
		for _, p := range paths {
			if p.End != "ret" {
				continue
			}
			entered := false
			for _, e := range p.Events {
				if e.Kind == "enterloop" {
					entered = true
				}
				if !entered {
					continue
				}
				if sv, ok := sendOf(w, &e); ok {
					if st := g.typeOnPath(w, sv, p, "<run>", 1<<30); st&tb != 0 {
						postSends++
						// guarded by a "terminal already sent" flag?
						for _, cd := range p.Conds {
							a := stripConv(cd.Atom)
							if a.Op == "sel" && a.A[0].Op == "deref" && !cd.Val && flagSetOnTerminalSend(w, m, a.S) {
								guarded = true
							}
						}
					}
				}
				if e.Kind == "builtin" && e.Method == "close" {
					closes = true
				}
			}
		}
		switch {
		case postSends == 0 && len(without) == 0:
			r.ok(m.name+"/style", pos, "every stopping path of every state has sent the terminal token itself; run() sends nothing after the loop"+map[bool]string{true: " (it closes the channel)", false: ""}[closes])
		case postSends > 0 && len(withTerm) == 0:
			r.ok(m.name+"/style", pos, "no state sends a terminal token; run() sends exactly one after the loop")
		case postSends > 0 && guarded:
			r.ok(m.name+"/style", pos, "run() sends the terminal token after the loop only if no state has sent one (flag set by the send helper)")
		case postSends == 0 && len(without) > 0:
			r.bad(m.name+"/style", pos, fmt.Sprintf("states %v can stop without having sent EOF/Error and run() sends nothing afterwards: the consumer waits forever for a terminal token", without))
		default:
			r.bad(m.name+"/style", pos, fmt.Sprintf("states %v send a terminal token themselves and run() unconditionally sends another one after the loop: the consumer stopped at the first, so the second send blocks forever and the goroutine leaks (states stopping without one: %v)", withTerm, without))
		}
		// a guard in run() before the loop tests state fixed before the go statement: advisory
		for _, p := range paths {
			if p.End == "ret" {
				entered := false
				for _, e := range p.Events {
					if e.Kind == "enterloop" {
						entered = true
					}
				}
				if !entered && len(p.Conds) > 0 {
					r.note("%s.run has an early return before the state loop (%s): reachable only if the first token is already terminal; no public entry point constructs such a producer", m.name, stripEpoch(p.Conds[0].Atom).Key())
				}
			}
		}
	}
}

// flagSetOnTerminalSend: every send in producer code goes through a helper that stores flag := true when the token is terminal.
func flagSetOnTerminalSend(w *World, m *machine, flag string) bool {
	tb := termBits(w)
	prod := producerFuncs(w, m)
	ok := true
	nsend := 0
	for fn := range prod {
		paths, _ := w.Paths(fn)
		for _, p := range paths {
			for i, e := range p.Events {
				if e.Kind != "send" {
					continue // wrappers are checked at their own (single) send
				}
				nsend++
				st := buildGraph(w, m).typeOnPath(w, e.Val, p, "<any>", -1)
				if st&tb == 0 {
					continue
				}
				if fn == m.run {
					continue // the guarded final send itself
				}
				set := false
				for j := 0; j < i; j++ {
					e2 := p.Events[j]
					if e2.Kind == "store" && e2.LV.Op == "sel" && e2.LV.S == flag && e2.Val.IsConstVal(1) {
						set = true
					}
				}
				if !set {
					ok = false
				}
			}
		}
	}
	return ok && nsend > 0
}

func ruleProdConsumer(w *World, r *RuleResult) {
	tb := termBits(w)
	// every go statement belongs to a resolved producer
	ms := machines(w)
	for _, fn := range libFuncs(w) {
		for _, b := range fn.Blocks {
			for _, in := range b.Instrs {
				if g, ok := in.(*ssa.Go); ok {
					known := false
					for _, m := range ms {
						if m.run != nil && g.Call.StaticCallee() == m.run {
							known = true
						}
					}
					r.check(known, "go/"+fn.Name(), w.Pos(instrPos(in)), "goroutine is a resolved token producer", "goroutine started in "+fn.Name()+" is not one of the token producers the protocol rules cover")
				}
			}
		}
	}
	for _, m := range ms {
		if m.run == nil {
			continue
		}
		prod := producerFuncs(w, m)
		// consumer functions: methods of the machine type that receive from its channel
		var drains []*ssa.Function
		for _, fn := range libRoots(w) {
			if prod[fn] || fn.Signature.Recv() == nil {
				continue
			}
			if pt, ok := fn.Signature.Recv().Type().(*types.Pointer); !ok || !types.Identical(pt.Elem(), m.recvT) {
				continue
			}
			paths, err := w.Paths(fn)
			if err != nil {
				continue
			}
			hasLoopRecv := false
			d := newDedup(r)
			for _, p := range paths {
				// receives directly or through a one-receive helper (NextToken)
				var toks []*T
				for i := range p.Events {
					e := &p.Events[i]
					if e.Kind == "recv" {
						toks = append(toks, e.Res)
					}
					if e.Kind == "call" && e.Callee != nil && e.Res != nil && e.Callee.Signature.Recv() != nil && receivesOnce(w, e.Callee) {
						toks = append(toks, &T{Op: "ext", C: 1, A: []*T{e.Res}})
					}
				}
				if len(toks) == 0 {
					continue
				}
				inLoop := false
				for _, e := range p.Events {
					if e.Kind == "enterloop" {
						inLoop = true
					}
				}
				if !inLoop {
					continue
				}
				hasLoopRecv = true
				last := toks[len(toks)-1]
				tk := stripEpoch(&T{Op: "sel", S: "typ", A: []*T{last}}).Key()
				set, _ := w.enumDomain(w.NamedType("tokenType"))
				for k, s := range p.Sets {
					if stripEpoch(p.SetTerms[k]).Key() == tk {
						set &= s
					}
				}
				key := m.name + "/" + fn.Name()
				pos := w.Pos(fn.Pos())
				if p.End == "backedge" && set&tb != 0 {
					// the token is terminal and the loop goes round once more — but only to find the flag
					// it has just set: a loop variable that becomes true here, and which every
					// iteration that receives again requires to be false
					be := p.Events[len(p.Events)-1]
					hdr := int(be.Res.C)
					var phis []string
					if hdr < len(fn.Blocks) {
						for _, in := range fn.Blocks[hdr].Instrs {
							if ph, ok := in.(*ssa.Phi); ok {
								phis = append(phis, ph.Comment)
							}
						}
					}
					flagged := false
					for k, a := range be.Args {
						if k >= len(phis) {
							continue
						}
						// the values of the token's type for which the new flag is true cover every
						// terminal type the token can still have on this path
						var flagTrue func(t *T) (uint64, bool)
						flagTrue = func(t *T) (uint64, bool) {
							t = stripConv(t)
							switch {
							case t.IsConstVal(1):
								return ^uint64(0), true
							case t.IsConstVal(0):
								return 0, true
							case t.Op == "eq" && t.A[1].IsConst() && t.A[1].C >= 0 && t.A[1].C < 64 && stripEpoch(stripConv(t.A[0])).Key() == tk:
								return 1 << uint(t.A[1].C), true
							case t.Op == "or" && len(t.A) == 2:
								x, ok1 := flagTrue(t.A[0])
								y, ok2 := flagTrue(t.A[1])
								return x | y, ok1 && ok2
							}
							return 0, false
						}
						ft, okf := flagTrue(a)
						if !okf || (set&tb)&^ft != 0 {
							continue
						}
						guards := true
						nq := 0
						for _, q := range paths {
							inThis := q.Start == hdr
							for i := range q.Events {
								if e := &q.Events[i]; e.Kind == "enterloop" && e.Res != nil && int(e.Res.C) == hdr {
									inThis = true
								}
							}
							if !inThis {
								continue
							}
							receives := false
							for i := range q.Events {
								e := &q.Events[i]
								if e.Kind == "recv" || (e.Kind == "call" && e.Callee != nil && e.Callee.Signature.Recv() != nil && receivesOnce(w, e.Callee)) {
									receives = true
								}
							}
							if !receives {
								continue
							}
							nq++
							if !hasCond(q, func(c *T, v bool) bool { return c.Op == "loopvar" && c.S == phis[k] && int(c.C) == hdr && !v }) {
								guards = false
							}
						}
						if guards && nq > 0 {
							flagged = true
						}
					}
					if flagged {
						d.add(true, key+"/continues-only-on-non-terminal", pos, "after a terminal token the loop only goes on to test the stop flag it has just set", "")
						continue
					}
				}
				if p.End == "backedge" {
					d.add(set&tb == 0, key+"/continues-only-on-non-terminal", pos, "the receive loop continues only when the token is neither EOF nor Error", "the receive loop continues after a token that may be EOF/Error: the producer has stopped, so the next receive blocks forever")
				} else if p.End == "ret" && set&^tb == 0 {
					d.add(true, key+"/stops-at-terminal", pos, "stops at the terminal token", "")
				} else if p.End == "ret" && set&tb == 0 {
					// leaves the loop on a non-terminal token without an error from the producer side
					errRet := len(p.Ret) > 0 && p.Ret[len(p.Ret)-1].Op != "nil"
					d.add(errRet, key+"/early-exit", pos, "leaves early only with an error", "the consumer stops receiving on a non-terminal token: the producer blocks on its next send forever (leaked goroutine)")
				}
			}
			d.flush()
			if hasLoopRecv {
				drains = append(drains, fn)
			}
		}
		r.check(len(drains) > 0, m.name+"/has-drain", w.Pos(m.run.Pos()), "a draining method exists", "no method receives the producer's tokens in a loop")
		// every construction is followed by a drain on every path of the constructing caller
		var ctor *ssa.Function
		for _, fn := range libFuncs(w) {
			for _, b := range fn.Blocks {
				for _, in := range b.Instrs {
					if g, ok := in.(*ssa.Go); ok && g.Call.StaticCallee() == m.run {
						ctor = fn
					}
				}
			}
		}
		if ctor == nil {
			continue
		}
		for _, callRoot := range w.CallerRoots(ctor) {
			caller := callRoot
			paths, err := w.Paths(caller)
			if err != nil {
				continue
			}
			good := true
			for _, p := range paths {
				ci := -1
				for i := range p.Events {
					if p.Events[i].Kind == "call" && p.Events[i].Callee == ctor {
						ci = i
					}
				}
				if ci < 0 {
					continue
				}
				obj := p.Events[ci].Res
				drained := false
				for i := ci + 1; i < len(p.Events); i++ {
					e := &p.Events[i]
					if e.Kind == "call" && len(e.Args) > 0 && e.Args[0].Key() == obj.Key() {
						for _, dr := range drains {
							if e.Callee == dr {
								drained = true
							}
						}
					}
					if e.Kind == "ret" && len(e.Args) > 0 && e.Args[0].Key() == obj.Key() {
						drained = true // handed to the caller, who is checked in turn
					}
				}
				if !drained {
					good = false
				}
			}
			r.check(good, m.name+"/drained-by/"+caller.Name(), w.Pos(caller.Pos()), "every path that creates the producer drains it", caller.Name()+" creates the producer but has a path that never drains it: the goroutine blocks on its first send forever")
		}
	}
}

// receivesOnce: the function performs a single channel receive and returns the value.
func receivesOnce(w *World, fn *ssa.Function) bool {
	paths, err := w.Paths(fn)
	if err != nil {
		return false
	}
	n := 0
	for _, p := range paths {
		for _, e := range p.Events {
			if e.Kind == "recv" {
				n++
			}
			if e.Kind == "enterloop" {
				return false
			}
		}
	}
	return n > 0
}

func ruleProdShared(w *World, r *RuleResult) {
	for _, m := range machines(w) {
		if m.run == nil {
			continue
		}
		prod := producerFuncs(w, m)
		var ctor *ssa.Function
		for _, fn := range libFuncs(w) {
			for _, b := range fn.Blocks {
				for _, in := range b.Instrs {
					if g, ok := in.(*ssa.Go); ok && g.Call.StaticCallee() == m.run {
						ctor = fn
					}
				}
			}
		}
		access := func(fns map[*ssa.Function]bool) (reads, writes map[string]bool) {
			reads, writes = map[string]bool{}, map[string]bool{}
			for fn := range fns {
				for _, b := range fn.Blocks {
					for _, in := range b.Instrs {
						fa, ok := in.(*ssa.FieldAddr)
						if !ok {
							continue
						}
						pt, ok := fa.X.Type().(*types.Pointer)
						if !ok || !types.Identical(pt.Elem(), m.recvT) {
							continue
						}
						name := derefStruct(fa.X.Type()).Field(fa.Field).Name()
						for _, ref := range *fa.Referrers() {
							if st, ok := ref.(*ssa.Store); ok && st.Addr == fa {
								writes[name] = true
							} else {
								reads[name] = true
							}
						}
					}
				}
			}
			return
		}
		cons := map[*ssa.Function]bool{}
		for _, fn := range libFuncs(w) {
			if prod[fn] || fn == ctor || fn.Signature.Recv() == nil {
				continue
			}
			if pt, ok := fn.Signature.Recv().Type().(*types.Pointer); ok && types.Identical(pt.Elem(), m.recvT) {
				cons[fn] = true
			}
		}
		pr, pw := access(prod)
		cr, cw := access(cons)
		st := m.recvT.Underlying().(*types.Struct)
		for i := 0; i < st.NumFields(); i++ {
			f := st.Field(i).Name()
			pAny, cAny := pr[f] || pw[f], cr[f] || cw[f]
			key := m.name + "/field/" + f
			pos := w.Pos(m.run.Pos())
			switch {
			case !pAny || !cAny:
				r.ok(key, pos, "used by one side only (or set before the goroutine starts)")
			case f == m.chanF:
				r.check(!pw[f] && !cw[f], key, pos, "the channel itself: created before the goroutine starts, then only sent on / received from / closed", "the channel field is reassigned after the goroutine was started")
			case cw[f]:
				r.bad(key, pos, "field "+f+" is written by the consumer side and used by the producer goroutine without synchronisation")
			case pw[f]:
				// flag written by the producer after its last send; consumer reads it only before a receive
				good, why := flagProtocol(w, m, f, prod, cons)
				r.check(good, key, pos, "producer writes it after its last send/close; the consumer reads it only before a receive (unbuffered channel orders them)", "field "+f+" is shared between the producer goroutine and its consumer outside the send/receive protocol: "+why)
			default:
				r.ok(key, pos, "read by both sides, written only before the goroutine starts")
			}
		}
	}
}

func flagProtocol(w *World, m *machine, f string, prod, cons map[*ssa.Function]bool) (bool, string) {
	for fn := range prod {
		paths, _ := w.Paths(fn)
		for _, p := range paths {
			for i, e := range p.Events {
				if e.Kind == "store" && e.LV.Op == "sel" && e.LV.S == f {
					for j := i + 1; j < len(p.Events); j++ {
						if p.Events[j].Kind == "send" {
							return false, fn.Name() + " sends after writing " + f
						}
					}
					if fn != m.run {
						// written inside a state/helper: fine only if it is never read by the consumer... it is, so require run()
						return false, f + " is written in " + fn.Name() + ", not after the producer's last send in " + m.run.Name()
					}
					if p.End != "ret" {
						return false, f + " is written inside the state loop"
					}
				}
			}
		}
	}
	for fn := range cons {
		paths, _ := w.Paths(fn)
		for _, p := range paths {
			// find reads of f: conditions on it
			for _, cd := range p.Conds {
				a := stripConv(cd.Atom)
				if a.Op == "sel" && a.S == f {
					if cd.Val {
						continue // the flag read true: only after a complete drain (dead for single-use producers; noted in DESIGN)
					}
					// read false and later read true with no receive in between: impossible, the producer's final send needs this consumer's receive
					laterTrue := false
					for _, cd2 := range p.Conds {
						a2 := stripConv(cd2.Atom)
						if a2.Op == "sel" && a2.S == f && cd2.Val && a2.E > a.E {
							laterTrue = true
						}
					}
					if laterTrue {
						continue
					}
					// read false: a receive must follow on this path
					recv := false
					for _, e := range p.Events {
						if e.Kind == "recv" {
							recv = true
						}
						if e.Kind == "call" && e.Callee != nil && receivesOnce(w, e.Callee) {
							recv = true
						}
					}
					if !recv && p.End == "ret" {
						return false, fn.Name() + " reads " + f + " on a path without a following receive"
					}
				}
			}
		}
	}
	return true, ""
}

func tokenTypeOf(w *World, v *T) (uint64, bool) {
	if v.Op == "struct" {
		for i, n := range v.N {
			if n == "typ" && v.A[i].IsConst() {
				return 1 << uint(v.A[i].C), true
			}
			// the type looked up in a table the package initialiser fills: any of its entries
			if n == "typ" {
				if lk := mapLookupOf(v.A[i]); lk != nil {
					if ents, ok := w.roInitMap(lk.A[0]); ok && len(ents) > 0 {
						var set uint64
						for _, en := range ents {
							c := stripConv(en.val)
							if !c.IsConst() || c.C < 0 || c.C >= 64 {
								return 0, false
							}
							set |= 1 << uint(c.C)
						}
						return set, true
					}
				}
			}
		}
	}
	return 0, false
}

// eqConsistent: no term is asserted equal to two different constants.
func eqConsistent(atoms map[string]bool) bool {
	val := map[string]string{}
	for k, v := range atoms {
		if !v || !strings.HasPrefix(k, "eq(") || !strings.HasSuffix(k, ")") {
			continue
		}
		body := k[3 : len(k)-1]
		i := strings.LastIndex(body, ",")
		if i < 0 {
			continue
		}
		term, c := body[:i], body[i+1:]
		if old, ok := val[term]; ok && old != c {
			return false
		}
		val[term] = c
	}
	// a term equal to constant c cannot also be "not equal" to c (handled by polarity) nor satisfy eq with another
	return true
}

// sendWrapperParam: fn is a method that sends exactly one token parameter on the
// machine's channel on every path; returns the index of that parameter.
var wrapMemo = map[*ssa.Function]int{}

func sendWrapperParam(w *World, fn *ssa.Function) int {
	if fn == nil || fn.Pkg != w.SLib {
		return -1
	}
	if v, ok := wrapMemo[fn]; ok {
		return v
	}
	wrapMemo[fn] = -1
	if fn.Signature.Results().Len() != 0 {
		return -1
	}
	paths, err := w.Paths(fn)
	if err != nil || len(paths) == 0 {
		return -1
	}
	idx := -1
	for _, p := range paths {
		n := 0
		for _, e := range p.Events {
			if e.Kind == "send" {
				n++
				v := stripConv(e.Val)
				if v.Op != "p" {
					return -1
				}
				for i, prm := range fn.Params {
					if prm.Name() == v.S {
						if idx >= 0 && idx != i {
							return -1
						}
						idx = i
					}
				}
			}
			if e.Kind == "enterloop" || (e.Kind == "call" && e.Callee != nil && e.Callee.Pkg == w.SLib) {
				return -1
			}
		}
		if n != 1 || p.End != "ret" {
			return -1
		}
	}
	wrapMemo[fn] = idx
	return idx
}

// sendOf: the value an event sends to the channel (direct send or send wrapper), if any.
func sendOf(w *World, e *Event) (*T, bool) {
	if e.Kind == "send" {
		return e.Val, true
	}
	if e.Kind == "call" {
		if i := sendWrapperParam(w, e.Callee); i >= 0 && i < len(e.Args) {
			return e.Args[i], true
		}
	}
	return nil, false
}

// carriedAndTested: on back-edge path p the value t (an end-of-input result)
// flows into a loop-carried variable; some path of the function tests that
// variable true and then stops the machine (returns nil) without consuming again.
func carriedAndTested(w *World, fn *ssa.Function, paths []*Path, p *Path, t *T) bool {
	if p.End != "backedge" {
		return false
	}
	be := p.Events[len(p.Events)-1]
	var phis []*ssa.Phi
	for _, in := range fn.Blocks[int(be.Res.C)].Instrs {
		if ph, ok := in.(*ssa.Phi); ok {
			phis = append(phis, ph)
		}
	}
	for i, a := range be.Args {
		if i >= len(phis) || stripConv(a).Key() != t.Key() {
			continue
		}
		lvKey := (&T{Op: "loopvar", S: phis[i].Comment, C: be.Res.C, Ty: phis[i].Type()}).Key()
		for _, q := range paths {
			if q.End != "ret" || len(q.Ret) < 1 || stripConv(q.Ret[0]).Op != "nil" {
				continue
			}
			for _, cd := range q.Conds {
				if cd.Atom.Key() == lvKey && cd.Val {
					return true
				}
			}
		}
	}
	return false
}

// enumMachines: state machines whose states are the constants of an
// enumerated type, each handled by a method of the machine returning the next
// constant, dispatched by a switch inside a driver loop.
func enumMachines(w *World) []*machine {
	var out []*machine
	sc := w.Lib.Types.Scope()
	for _, n := range sc.Names() {
		tn, ok := sc.Lookup(n).(*types.TypeName)
		if !ok {
			continue
		}
		nt, ok := tn.Type().(*types.Named)
		if !ok {
			continue
		}
		if _, isEnum := w.enumDomain(nt); !isEnum {
			continue
		}
		// methods (no parameters) returning nt first, grouped by receiver
		byRecv := map[string][]*ssa.Function{}
		recvOf := map[string]*types.Named{}
		for _, fn := range libFuncs(w) {
			fs := fn.Signature
			if fs.Recv() == nil || fs.Params().Len() != 0 || fs.Results().Len() < 1 || !types.Identical(fs.Results().At(0).Type(), nt) {
				continue
			}
			if p, ok := fs.Recv().Type().(*types.Pointer); ok {
				if rt, ok := p.Elem().(*types.Named); ok {
					byRecv[rt.Obj().Name()] = append(byRecv[rt.Obj().Name()], fn)
					recvOf[rt.Obj().Name()] = rt
				}
			}
		}
		for rn, states := range byRecv {
			if len(states) < 2 {
				continue
			}
			rt := recvOf[rn]
			m := &machine{name: rn, stateT: nt, recvT: rt, states: states, enumStates: map[int64]*ssa.Function{}}
			isState := map[*ssa.Function]bool{}
			for _, f := range states {
				isState[f] = true
			}
			// the driver: a function that calls the state methods, each under "state == constant"
			// (the state methods must stay calls while the driver is explored)
			w.MarkBoundary("state method of machine "+rn, states...)
			for _, fn := range libFuncs(w) {
				if isState[fn] {
					continue
				}
				n := 0
				for _, b := range fn.Blocks {
					for _, in := range b.Instrs {
						if c, ok := in.(*ssa.Call); ok && isState[c.Call.StaticCallee()] {
							n++
						}
					}
				}
				if n < 2 {
					continue
				}
				ps, err := w.Paths(fn)
				if err != nil {
					continue
				}
				for _, p := range ps {
					for _, e := range p.Events {
						if e.Kind != "call" || !isState[e.Callee] {
							continue
						}
						for k, set := range p.Sets {
							if types.Identical(p.SetTerms[k].Ty, nt) && set != 0 && set&(set-1) == 0 {
								v := int64(0)
								for x := set; x > 1; x >>= 1 {
									v++
								}
								m.enumStates[v] = e.Callee
							}
						}
					}
				}
			}
			if len(m.enumStates) < 2 {
				continue
			}
			// consuming primitive, look-ahead field: as for the other machines
			pt := types.NewPointer(rt)
			var flat []*types.Var
			recvTypes := []types.Type{pt}
			var flatten func(st *types.Struct)
			flatten = func(st *types.Struct) {
				for i := 0; i < st.NumFields(); i++ {
					f := st.Field(i)
					if embeddedStruct(f) {
						recvTypes = append(recvTypes, types.NewPointer(f.Type()))
						flatten(f.Type().Underlying().(*types.Struct))
						continue
					}
					flat = append(flat, f)
				}
			}
			flatten(rt.Underlying().(*types.Struct))
			for _, fn := range libFuncs(w) {
				if fn.Signature.Recv() == nil {
					continue
				}
				mine := false
				for _, r := range recvTypes {
					if types.Identical(fn.Signature.Recv().Type(), r) {
						mine = true
					}
				}
				if !mine {
					continue
				}
				for _, b := range fn.Blocks {
					for _, in := range b.Instrs {
						if ci, ok := in.(ssa.CallInstruction); ok && ci.Common().IsInvoke() && ci.Common().Method.Name() == "NextToken" {
							m.next = fn
						}
					}
				}
			}
			for _, f := range flat {
				if typeName(f.Type()) == "token" && m.tokF == "" {
					m.tokF = f.Name()
				}
			}
			if m.next != nil {
				ps, _ := w.Paths(m.next)
				for _, p := range ps {
					if len(p.Conds) > 0 {
						a := stripConv(p.Conds[0].Atom)
						if a.Op == "sel" && a.A[0].Op == "deref" {
							m.eofF = a.S
						}
					}
				}
			}
			sort.Slice(m.states, func(i, j int) bool { return m.states[i].Name() < m.states[j].Name() })
			if m.next != nil && m.tokF != "" {
				out = append(out, m)
			}
		}
	}
	return out
}
