package main

// Loading of /repo (type-checked syntax + SSA) and whole-program facts shared
// by the rules: enum domains, write-once ("stable") struct fields, per-function
// modification sets, purity, call graph helpers.

import (
	"fmt"
	"go/ast"
	"go/constant"
	"go/token"
	"go/types"
	"os"
	"path/filepath"
	"sort"
	"strings"
	"time"

	"golang.org/x/tools/go/packages"
	"golang.org/x/tools/go/ssa"
	"golang.org/x/tools/go/ssa/ssautil"
)

type World struct {
	Root  string
	Fset  *token.FileSet
	Pkgs  []*packages.Package
	Lib   *packages.Package // root package gmars
	Cmd   *packages.Package // cmd/gmars
	Prog  *ssa.Program
	SLib  *ssa.Package
	SCmd  *ssa.Package
	Funcs []*ssa.Function // all source functions of Lib and Cmd (incl. anonymous)

	enums    map[string]uint64           // named type string -> bitmask of declared constants
	enumName map[string]map[int64]string // type -> value -> const name
	unstable map[string]bool             // "Type.field" stored outside a constructor
	mods     map[*ssa.Function]map[string]bool
	modUnk   map[*ssa.Function]bool
	pathMemo map[*ssa.Function][]*Path
	pathErr  map[*ssa.Function]error

	NoInline     bool
	inlBudget    int
	boundary     map[*ssa.Function]string
	inlMemo      map[*ssa.Function]bool
	inlIfs       map[*ssa.Function]int
	addrTaken    map[*ssa.Function]bool
	pfacts       map[*ssa.Function]map[string]*T
	callers      map[*ssa.Function][]*ssa.Function
	recursive    map[*ssa.Function]bool
	byKey        map[string]*ssa.Function
	globalInit   map[string]*T
	globalRO     map[string]bool
	globalInitLV map[string]*T
	initMaps     map[string][]mapEntry // maps the package initialiser built: their entries
	mapGlobal    map[string][]string   // ... and the package variables that hold them
	mapRO        map[string]bool
	builtMaps    int
}

func LoadWorld(root string) (*World, error) {
	abs, err := filepath.Abs(root)
	if err != nil {
		return nil, err
	}
	env := append(os.Environ(), "GOFLAGS=-mod=readonly", "GOWORK=off", "GOPROXY=off", "GOSUMDB=off", "GOTOOLCHAIN=local", "CGO_ENABLED=0")
	cfg := &packages.Config{Mode: packages.LoadAllSyntax, Dir: abs, Env: env, Tests: false}
	pkgs, err := packages.Load(cfg, ".", "./cmd/gmars")
	if err != nil {
		return nil, err
	}
	w := &World{Root: abs, Pkgs: pkgs}
	for _, p := range pkgs {
		if len(p.Errors) > 0 {
			return nil, fmt.Errorf("package %s: %v", p.PkgPath, p.Errors[0])
		}
		if p.Name == "main" {
			w.Cmd = p
		} else {
			w.Lib = p
		}
	}
	if w.Lib == nil || w.Cmd == nil || len(pkgs) != 2 {
		return nil, fmt.Errorf("expected 2 packages (library and cmd/gmars), loaded %d", len(pkgs))
	}
	w.Fset = w.Lib.Fset
	prog, spkgs := ssautil.AllPackages(pkgs, ssa.BuilderMode(0))
	prog.Build()
	w.Prog = prog
	for i, p := range pkgs {
		if p == w.Lib {
			w.SLib = spkgs[i]
		} else {
			w.SCmd = spkgs[i]
		}
	}
	for fn := range ssautil.AllFunctions(prog) {
		if fn.Pkg == w.SLib || fn.Pkg == w.SCmd {
			if fn.Synthetic == "" && len(fn.Blocks) > 0 {
				w.Funcs = append(w.Funcs, fn)
			}
		}
	}
	sort.Slice(w.Funcs, func(i, j int) bool { return w.Funcs[i].String() < w.Funcs[j].String() })
	w.computeEnums()
	w.computeStable()
	w.computeMods()
	w.pathMemo = map[*ssa.Function][]*Path{}
	w.pathErr = map[*ssa.Function]error{}
	w.boundary = map[*ssa.Function]string{}
	w.inlMemo = map[*ssa.Function]bool{}
	w.inlIfs = map[*ssa.Function]int{}
	w.computeCallFacts()
	return w, nil
}

func (w *World) Pos(p token.Pos) string {
	if !p.IsValid() {
		return "-"
	}
	pos := w.Fset.Position(p)
	rel, err := filepath.Rel(w.Root, pos.Filename)
	if err != nil {
		rel = pos.Filename
	}
	return fmt.Sprintf("%s:%d", rel, pos.Line)
}

func (w *World) Paths(fn *ssa.Function) ([]*Path, error) {
	if p, ok := w.pathMemo[fn]; ok {
		return p, w.pathErr[fn]
	}
	t0 := time.Now()
	if os.Getenv("GMARSLINT_TIMING") == "all" {
		fmt.Fprintf(os.Stderr, "exploring: %s\n", fn)
	}
	p, err := ExplorePaths(w, fn)
	if os.Getenv("GMARSLINT_TIMING") == "all" || os.Getenv("GMARSLINT_TIMING") != "" && time.Since(t0) > 200*time.Millisecond {
		fmt.Fprintf(os.Stderr, "timing: budget=%d %s %d paths %v\n", w.inlBudget, fn.Name(), len(p), time.Since(t0))
	}
	w.pathMemo[fn] = p
	w.pathErr[fn] = err
	return p, err
}

// LibFunc finds a package-level function of the library by name.
func (w *World) LibFunc(name string) *ssa.Function {
	return w.SLib.Func(name)
}

// Method finds a method on a named type (pointer or value receiver).
func (w *World) Method(typeName, method string) *ssa.Function {
	obj := w.Lib.Types.Scope().Lookup(typeName)
	if obj == nil {
		return nil
	}
	for _, t := range []types.Type{obj.Type(), types.NewPointer(obj.Type())} {
		ms := w.Prog.MethodSets.MethodSet(t)
		if sel := ms.Lookup(w.Lib.Types, method); sel != nil {
			if f := w.Prog.MethodValue(sel); f != nil && f.Synthetic == "" {
				return f
			}
		}
	}
	return nil
}

func (w *World) NamedType(name string) *types.Named {
	obj := w.Lib.Types.Scope().Lookup(name)
	if obj == nil {
		return nil
	}
	n, _ := obj.Type().(*types.Named)
	return n
}

func (w *World) computeEnums() {
	w.enums = map[string]uint64{}
	w.enumName = map[string]map[int64]string{}
	for _, pkg := range []*packages.Package{w.Lib} {
		sc := pkg.Types.Scope()
		for _, n := range sc.Names() {
			c, ok := sc.Lookup(n).(*types.Const)
			if !ok {
				continue
			}
			nt, ok := c.Type().(*types.Named)
			if !ok {
				continue
			}
			b, ok := nt.Underlying().(*types.Basic)
			if !ok || b.Info()&types.IsInteger == 0 {
				continue
			}
			v, ok := constant.Int64Val(c.Val())
			if !ok || v < 0 || v > 63 {
				continue
			}
			k := nt.String()
			w.enums[k] |= 1 << uint(v)
			if w.enumName[k] == nil {
				w.enumName[k] = map[int64]string{}
			}
			if _, dup := w.enumName[k][v]; !dup {
				w.enumName[k][v] = n
			}
		}
	}
}

func (w *World) enumDomain(t types.Type) (uint64, bool) {
	if t == nil {
		return 0, false
	}
	d, ok := w.enums[t.String()]
	return d, ok
}

func (w *World) EnumConstName(t types.Type, v int64) string {
	if m, ok := w.enumName[t.String()]; ok {
		if n, ok := m[v]; ok {
			return n
		}
	}
	return fmt.Sprintf("%d", v)
}

func (w *World) EnumValues(typeName string) map[int64]string {
	nt := w.NamedType(typeName)
	if nt == nil {
		return nil
	}
	return w.enumName[nt.String()]
}

// fieldKey names a struct field as "Type.field".
func fieldKeyOf(fa *ssa.FieldAddr) string {
	t := fa.X.Type()
	if p, ok := t.Underlying().(*types.Pointer); ok {
		t = p.Elem()
	}
	st := t.Underlying().(*types.Struct)
	name := types.TypeString(t, func(*types.Package) string { return "" })
	return name + "." + st.Field(fa.Field).Name()
}

// computeStable finds fields stored only through a pointer freshly allocated
// in the same function (constructor stores); all other stored fields are
// unstable.  Taking the address of a field for anything other than a load or a
// store also makes it unstable.
func (w *World) computeStable() {
	w.unstable = map[string]bool{}
	for _, fn := range w.Funcs {
		for _, b := range fn.Blocks {
			for _, in := range b.Instrs {
				switch in := in.(type) {
				case *ssa.Store:
					if fa, ok := in.Addr.(*ssa.FieldAddr); ok {
						if isFreshAlloc(fa.X) {
							continue
						}
						for _, k := range fieldKeysOf(fa) {
							w.unstable[k] = true
						}
					}
				case *ssa.FieldAddr:
					for _, r := range *in.Referrers() {
						switch r := r.(type) {
						case *ssa.UnOp, *ssa.Store, *ssa.FieldAddr, *ssa.IndexAddr, *ssa.DebugRef:
							_ = r
						default:
							for _, k := range fieldKeysOf(in) {
								w.unstable[k] = true
							}
						}
					}
				}
			}
		}
	}
}

func isFreshAlloc(v ssa.Value) bool {
	switch v := v.(type) {
	case *ssa.Alloc:
		return true
	case *ssa.FieldAddr:
		return isFreshAlloc(v.X)
	}
	return false
}

// stableLV: the lvalue denotes a stable location: a chain of stable fields
// from a parameter / stable pointer.
func (w *World) stableLV(lv *T) bool {
	switch lv.Op {
	case "sel":
		base := lv.A[0]
		var tn string
		if base.Ty != nil {
			t := base.Ty
			if p, ok := t.Underlying().(*types.Pointer); ok {
				t = p.Elem()
			}
			tn = types.TypeString(t, func(*types.Package) string { return "" })
		}
		if tn == "" || w.unstable[tn+"."+lv.S] {
			return false
		}
		return w.stableLV(base)
	case "deref":
		// the pointee is identified by the pointer value itself (a snapshot)
		return true
	case "p":
		return true
	}
	return false
}

// computeMods: per function, the set of field names / globals it may store to
// (transitively through static calls); unknown when it makes a dynamic or
// external call that could write through its arguments.
func (w *World) computeMods() {
	w.mods = map[*ssa.Function]map[string]bool{}
	w.modUnk = map[*ssa.Function]bool{}
	direct := map[*ssa.Function]map[string]bool{}
	unk := map[*ssa.Function]bool{}
	callees := map[*ssa.Function][]*ssa.Function{}
	for _, fn := range w.Funcs {
		m := map[string]bool{}
		for _, b := range fn.Blocks {
			for _, in := range b.Instrs {
				switch in := in.(type) {
				case *ssa.Store:
					addr := in.Addr
					var touched []string
					for {
						if fa, ok := addr.(*ssa.FieldAddr); ok {
							st := derefStruct(fa.X.Type())
							f := st.Field(fa.Field)
							touched = append(touched, f.Name())
							if embeddedStruct(f) && addr == in.Addr {
								// the embedded struct replaced as a whole: all its (promoted) fields change
								for _, pf := range flatFields(f.Type().Underlying().(*types.Struct)) {
									touched = append(touched, pf.Name())
								}
							}
							addr = fa.X
							continue
						}
						if ia, ok := addr.(*ssa.IndexAddr); ok {
							touched = append(touched, "[]")
							addr = ia.X
							continue
						}
						if sl, ok := addr.(*ssa.Slice); ok {
							addr = sl.X
							continue
						}
						break
					}
					if _, fresh := addr.(*ssa.MakeSlice); fresh {
						continue // a slice this function made itself
					}
					if _, fresh := addr.(*ssa.Alloc); fresh {
						continue // storage this function created itself (locals, literals, varargs): no existing state changes
					}
					for _, t := range touched {
						m[t] = true
					}
					if g, ok := addr.(*ssa.Global); ok {
						m["global:"+g.Name()] = true
					}
				case *ssa.MapUpdate:
					m["[]"] = true
				case ssa.CallInstruction:
					c := in.Common()
					if _, ok := c.Value.(*ssa.Builtin); ok {
						continue
					}
					if callee := c.StaticCallee(); callee != nil {
						if callee.Pkg == w.SLib || callee.Pkg == w.SCmd {
							callees[fn] = append(callees[fn], callee)
						} else if !externPure(callee) {
							unk[fn] = true
						}
					} else {
						unk[fn] = true
					}
				}
			}
		}
		direct[fn] = m
	}
	// transitive closure
	for _, fn := range w.Funcs {
		seen := map[*ssa.Function]bool{}
		res := map[string]bool{}
		var visit func(f *ssa.Function)
		visit = func(f *ssa.Function) {
			if seen[f] {
				return
			}
			seen[f] = true
			for k := range direct[f] {
				res[k] = true
			}
			if unk[f] {
				w.modUnk[fn] = true
			}
			for _, c := range callees[f] {
				visit(c)
			}
		}
		visit(fn)
		w.mods[fn] = res
	}
}

// externPure: standard-library functions that do not write through their
// arguments (strings, fmt.Sprintf/Errorf, strconv, unicode, slices.Contains).
func externPure(f *ssa.Function) bool {
	if f.Pkg == nil {
		// methods of instantiated generics etc.
		s := f.String()
		return strings.HasPrefix(s, "slices.") || strings.HasPrefix(s, "strings.")
	}
	switch f.Pkg.Pkg.Path() {
	case "strings", "strconv", "unicode", "slices", "errors":
		return true
	case "fmt":
		switch f.Name() {
		case "Sprintf", "Errorf", "Sprint":
			return true
		}
	}
	return false
}

func (w *World) modSet(fn *ssa.Function) (map[string]bool, bool) {
	if fn == nil {
		return nil, true
	}
	if fn.Pkg != w.SLib && fn.Pkg != w.SCmd {
		return map[string]bool{}, !externPure(fn)
	}
	return w.mods[fn], w.modUnk[fn]
}

func (w *World) isPure(fn *ssa.Function) bool {
	m, u := w.modSet(fn)
	return !u && len(m) == 0
}

// FuncDecl returns the AST declaration of a library function.
func (w *World) FuncDecl(fn *ssa.Function) *ast.FuncDecl {
	if fn == nil {
		return nil
	}
	if d, ok := fn.Syntax().(*ast.FuncDecl); ok {
		return d
	}
	return nil
}

// Callers returns the static call sites of fn inside the analysed packages.
func (w *World) Callers(fn *ssa.Function) []ssa.CallInstruction {
	var out []ssa.CallInstruction
	for _, f := range w.Funcs {
		for _, b := range f.Blocks {
			for _, in := range b.Instrs {
				if c, ok := in.(ssa.CallInstruction); ok {
					if c.Common().StaticCallee() == fn {
						out = append(out, c)
					}
				}
			}
		}
	}
	return out
}

func funcShort(fn *ssa.Function) string {
	if fn == nil {
		return "?"
	}
	s := fn.String()
	s = strings.ReplaceAll(s, "github.com/bobertlo/gmars/cmd/gmars.", "cmd.")
	s = strings.ReplaceAll(s, "github.com/bobertlo/gmars.", "")
	s = strings.ReplaceAll(s, "(*", "")
	s = strings.ReplaceAll(s, "(", "")
	s = strings.ReplaceAll(s, ")", "")
	return s
}

// fnKey is the name under which a function appears in "call" terms.
func fnKey(f *ssa.Function) string {
	if f == nil {
		return "?"
	}
	s := f.String()
	s = strings.ReplaceAll(s, "github.com/bobertlo/gmars/cmd/gmars.", "cmd.")
	s = strings.ReplaceAll(s, "github.com/bobertlo/gmars.", "")
	return s
}

// fieldKeysOf: the "Type.field" names affected by a store through fa: the
// field itself, the same field as promoted into every struct that embeds its
// struct on the way, and — when fa selects an embedded struct as a whole —
// all of that struct's fields under each of those names.
func fieldKeysOf(fa *ssa.FieldAddr) []string {
	typeOf := func(x ssa.Value) (string, *types.Struct) {
		t := x.Type()
		if p, ok := t.Underlying().(*types.Pointer); ok {
			t = p.Elem()
		}
		st, _ := t.Underlying().(*types.Struct)
		return types.TypeString(t, func(*types.Package) string { return "" }), st
	}
	var owners []string
	cur := fa
	for {
		name, _ := typeOf(cur.X)
		owners = append(owners, name)
		outer, ok := cur.X.(*ssa.FieldAddr)
		if !ok {
			break
		}
		_, ost := typeOf(outer.X)
		if ost == nil || !embeddedStruct(ost.Field(outer.Field)) {
			break
		}
		cur = outer
	}
	_, st := typeOf(fa.X)
	f := st.Field(fa.Field)
	var fields []string
	var collect func(v *types.Var)
	collect = func(v *types.Var) {
		fields = append(fields, v.Name())
		if embeddedStruct(v) {
			es := v.Type().Underlying().(*types.Struct)
			for i := 0; i < es.NumFields(); i++ {
				collect(es.Field(i))
			}
		}
	}
	collect(f)
	var out []string
	for _, o := range owners {
		for _, fn := range fields {
			out = append(out, o+"."+fn)
		}
	}
	return out
}
