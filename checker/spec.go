package main

// Oracle: ICWS'94 draft (section 5 and the reference emulator) per-opcode,
// per-modifier effect table, extended with nothing gmars-specific.  The table
// is written from the standard, not from the code.
//
//   modifier  A-field(s) of IRA used   B-field(s) of IRB / destination
//   .A        A                         A
//   .B        B                         B
//   .AB       A                         B
//   .BA       B                         A
//   .F (.I)   A, B                      A, B     (pairwise)
//   .X        A, B                      B, A     (crossed)
//   .I        whole instruction for MOV, CMP/SEQ, SNE; like .F otherwise

import (
	"fmt"
	"sort"
	"strings"
)

type fieldPair struct{ a, b string } // IRA.a with IRB.b ; destination field is b

func modPairs(mod string) []fieldPair {
	switch mod {
	case "A":
		return []fieldPair{{"A", "A"}}
	case "B":
		return []fieldPair{{"B", "B"}}
	case "AB":
		return []fieldPair{{"A", "B"}}
	case "BA":
		return []fieldPair{{"B", "A"}}
	case "F", "I":
		return []fieldPair{{"A", "A"}, {"B", "B"}}
	case "X":
		return []fieldPair{{"A", "B"}, {"B", "A"}}
	}
	return nil
}

// fields of IRB tested by JMZ/JMN/DJN
func modTested(mod string) []string {
	switch mod {
	case "A", "BA":
		return []string{"A"}
	case "B", "AB":
		return []string{"B"}
	}
	return []string{"A", "B"}
}

var instrFields = []string{"Op", "OpMode", "AMode", "A", "BMode", "B"}

const (
	next1 = "rem(add(1,PC),M)"
	next2 = "rem(add(2,PC),M)"
)

func eqAtom(x, y string) string {
	if y != "0" && x > y {
		x, y = y, x
	}
	return "eq(" + x + "," + y + ")"
}

// tri-valued evaluation helpers over the path's partial assignment
type tri int

const (
	tF tri = iota
	tT
	tU
)

func triOf(conds map[string]bool, atom string, used map[string]bool) tri {
	v, ok := conds[atom]
	if !ok {
		return tU
	}
	used[atom] = true
	if v {
		return tT
	}
	return tF
}
func triNot(a tri) tri {
	switch a {
	case tT:
		return tF
	case tF:
		return tT
	}
	return tU
}
func triAnd(xs ...tri) tri {
	r := tT
	for _, x := range xs {
		if x == tF {
			return tF
		}
		if x == tU {
			r = tU
		}
	}
	return r
}
func triOr(xs ...tri) tri {
	r := tF
	for _, x := range xs {
		if x == tT {
			return tT
		}
		if x == tU {
			r = tU
		}
	}
	return r
}

// checkStepSpec compares one helper path with the table; "" when it matches.
func checkStepSpec(hv *helperView, op, mod string, s pathSummary) string {
	used := map[string]bool{}
	var wantStores []string // "field:descr"
	wantPush := ""
	wantTerm := false
	type wstore struct {
		field, kind, x, y string
	}
	var ws []wstore
	switch op {
	case "MOV":
		if mod == "I" {
			ws = append(ws, wstore{"", "copy", "", "IRA"})
		} else {
			for _, p := range modPairs(mod) {
				ws = append(ws, wstore{p.b, "copy", "", "IRA." + p.a})
			}
		}
		wantPush = next1
	case "ADD", "SUB", "MUL":
		for _, p := range modPairs(mod) {
			ws = append(ws, wstore{p.b, strings.ToLower(op), "IRB." + p.b, "IRA." + p.a})
		}
		wantPush = next1
	case "DIV", "MOD":
		kind := map[string]string{"DIV": "quo", "MOD": "rem"}[op]
		anyZero := tF
		for _, p := range modPairs(mod) {
			z := triOf(s.conds, eqAtom("IRA."+p.a, "0"), used)
			switch z {
			case tF:
				ws = append(ws, wstore{p.b, kind, "IRB." + p.b, "IRA." + p.a})
			case tU:
				// the path never tested this divisor: then it must not divide by it, and the outcome must not depend on it
			}
			anyZero = triOr(anyZero, z)
		}
		switch anyZero {
		case tT:
			wantTerm = true
		case tF:
			wantPush = next1
		default:
			return fmt.Sprintf("path does not test every divisor selected by .%s (conditions: %v)", mod, condList(s.conds))
		}
	case "JMZ", "JMN", "DJN":
		var zs []tri
		for _, f := range modTested(mod) {
			x := "IRB." + f
			if op == "DJN" {
				x = "sub(IRB." + f + ",1)"
				ws = append(ws, wstore{f, "dec", "cell(WAB)." + f, ""})
			}
			if op == "DJN" {
				// the decremented field is zero exactly when the fetched field is one
				zs = append(zs, triOf(s.conds, "eq(IRB."+f+",1)", used))
				continue
			}
			zs = append(zs, triOf(s.conds, eqAtom(x, "0"), used))
		}
		var jump tri
		if op == "JMZ" {
			jump = triAnd(zs...) // all tested fields zero
		} else {
			var nz []tri
			for _, z := range zs {
				nz = append(nz, triNot(z))
			}
			jump = triOr(nz...) // any tested field non-zero
		}
		switch jump {
		case tT:
			wantPush = "RAA"
		case tF:
			wantPush = next1
		default:
			return fmt.Sprintf("outcome of %s.%s is not determined by the tests on this path (conditions: %v)", op, mod, condList(s.conds))
		}
	case "CMP", "SEQ", "SNE", "SLT":
		var ts []tri
		if _, whole := s.conds[eqAtom("IRA", "IRB")]; whole && mod == "I" && op != "SLT" {
			// the two instruction registers compared as whole values: all fields at once
			ts = append(ts, triOf(s.conds, eqAtom("IRA", "IRB"), used))
		} else if mod == "I" && op != "SLT" {
			for _, f := range instrFields {
				ts = append(ts, triOf(s.conds, eqAtom("IRA."+f, "IRB."+f), used))
			}
		} else {
			for _, p := range modPairs(mod) {
				if op == "SLT" {
					ts = append(ts, triOf(s.conds, "lt(IRA."+p.a+",IRB."+p.b+")", used))
				} else {
					ts = append(ts, triOf(s.conds, eqAtom("IRA."+p.a, "IRB."+p.b), used))
				}
			}
		}
		var skip tri
		if op == "SNE" {
			var ne []tri
			for _, t := range ts {
				ne = append(ne, triNot(t))
			}
			skip = triOr(ne...)
		} else {
			skip = triAnd(ts...)
		}
		switch skip {
		case tT:
			wantPush = next2
		case tF:
			wantPush = next1
		default:
			return fmt.Sprintf("outcome of %s.%s is not determined by the tests on this path (conditions: %v)", op, mod, condList(s.conds))
		}
	default:
		return "UNDECIDED: no table entry for opcode " + op + " handled by a helper"
	}
	// every data condition on the path must be one the table knows
	for a := range s.conds {
		if !used[a] {
			return fmt.Sprintf("path branches on %s, which ICWS'94 %s.%s does not test", a, op, mod)
		}
	}
	// stores
	if len(s.stores) != len(ws) {
		for _, w := range ws {
			wantStores = append(wantStores, w.field+":"+w.kind+"("+w.x+","+w.y+")")
		}
		var got []string
		for _, st := range s.stores {
			got = append(got, st.field+":="+hv.norm(st.val))
		}
		return fmt.Sprintf("stores %v, table prescribes %v", got, wantStores)
	}
	matched := make([]bool, len(s.stores))
	for _, w := range ws {
		found := false
		for i, st := range s.stores {
			if matched[i] || st.field != w.field {
				continue
			}
			if st.addr != "WAB" {
				return "store at " + st.addr + " instead of the write-folded B address"
			}
			if msg := matchVal(hv, st, w.kind, w.x, w.y); msg != "" {
				return fmt.Sprintf("field %s: %s", fieldName(w.field), msg)
			}
			matched[i] = true
			found = true
			break
		}
		if !found {
			return fmt.Sprintf("no store to destination field %s (table: %s(%s,%s))", fieldName(w.field), w.kind, w.x, w.y)
		}
	}
	// successor
	if wantTerm {
		if s.terms != 1 || len(s.pushes) != 0 {
			return fmt.Sprintf("division by zero must end the task without queueing: %d termination reports, pushes %v", s.terms, s.pushes)
		}
		return ""
	}
	if len(s.pushes) != 1 || s.pushes[0] != wantPush || s.terms != 0 {
		return fmt.Sprintf("queues %v (terminations %d), table prescribes [%s]", s.pushes, s.terms, wantPush)
	}
	return ""
}

func fieldName(f string) string {
	if f == "" {
		return "(whole instruction)"
	}
	return f
}

func condList(m map[string]bool) []string {
	var out []string
	for k, v := range m {
		if v {
			out = append(out, k)
		} else {
			out = append(out, "!"+k)
		}
	}
	sort.Strings(out)
	return out
}

// matchVal: does the stored value have the prescribed form?
func matchVal(hv *helperView, st storeSum, kind, x, y string) string {
	c := hv.c
	val := stripConv(st.val)
	n := hv.norm(val)
	switch kind {
	case "copy":
		if n != y {
			return "stores " + n + ", table prescribes " + y
		}
		return ""
	case "dec":
		idx, f, _ := c.cell(st.e.LV)
		d, ok := c.rmwDelta(val, idx, f)
		if !ok || d != -1 {
			return "stores " + n + ", table prescribes (same field + M - 1) % M"
		}
		return ""
	case "quo", "rem":
		want := kind + "(" + x + "," + y + ")"
		if n != want {
			return "stores " + n + ", table prescribes " + want
		}
		return ""
	case "mul":
		if val.Op != "rem" || !c.isM(val.A[1]) {
			return "product " + n + " is not reduced modulo M"
		}
		a, b := x, y
		if a > b {
			a, b = b, a
		}
		want := "mul(" + a + "," + b + ")"
		if got := hv.norm(val.A[0]); got != want {
			return "stores " + got + " % M, table prescribes " + want + " % M"
		}
		return ""
	case "add", "sub":
		if val.Op != "rem" || !c.isM(val.A[1]) {
			return "result " + n + " is not reduced modulo M"
		}
		l := linearOf(hv.normT(val.A[0]))
		want := map[string]int64{x: 1, y: 1}
		if kind == "sub" {
			want[y] = -1
		}
		for k, cf := range l.Coef {
			if k == "M" {
				continue
			}
			if want[k] != cf {
				return "computes " + l.String() + " (mod M), table prescribes " + x + map[string]string{"add": " + ", "sub": " - "}[kind] + y
			}
		}
		for k, cf := range want {
			if l.Coef[k] != cf {
				return "computes " + l.String() + " (mod M), table prescribes " + x + map[string]string{"add": " + ", "sub": " - "}[kind] + y
			}
		}
		if l.Const != 0 {
			return "computes " + l.String() + " (mod M): stray constant"
		}
		neg := int64(0)
		if kind == "sub" {
			neg = 1
		}
		if l.Coef["M"] < neg {
			return "computes " + l.String() + ": subtraction of an unsigned field without adding M first underflows"
		}
		return ""
	}
	return "UNDECIDED: unknown kind " + kind
}
