package main

// Which calls the path explorer expands in place.
//
// A helper of the analysed packages is inlined when it is loop-free, not
// recursive, unexported, small, and not an anchor of any rule (a "boundary").
// Extracting a few statements into such a helper, or folding a helper back
// into its caller, therefore changes neither the events nor the terms a rule
// sees.  A helper that is inlined at every use ("covered") is not analysed
// on its own: its obligations are judged in each caller's context, where the
// guards and reductions applied by the caller are visible.

import (
	"fmt"
	"go/ast"
	"go/token"
	"go/types"
	"os"
	"sort"
	"strings"

	"golang.org/x/tools/go/ssa"
	"golang.org/x/tools/go/ssa/ssautil"
)

// budget of conditional branches a helper (with the helpers it expands) may
// contain; while anchors are being resolved only branch-free helpers are
// expanded, so that no function's path count grows before the opaque
// functions are known.
const maxInlineIfs = 12
const anchorInlineIfs = 12

func (w *World) setInlineBudget(n int) {
	if w.inlBudget != n {
		w.inlBudget = n
		w.pathMemo = map[*ssa.Function][]*Path{}
		w.pathErr = map[*ssa.Function]error{}
		w.inlMemo = map[*ssa.Function]bool{}
		w.inlIfs = map[*ssa.Function]int{}
	}
}

func (w *World) inPkgs(fn *ssa.Function) bool {
	if fn != nil && fn.Pkg == nil && fn.Origin() != nil {
		fn = fn.Origin() // an instantiation of a generic function of the analysed packages
	}
	return fn != nil && fn.Pkg != nil && (fn.Pkg == w.SLib || fn.Pkg == w.SCmd)
}

// MarkBoundary registers anchors: functions a rule identifies by themselves
// (its call events are what the rule looks for), which must stay opaque calls.
func (w *World) MarkBoundary(why string, fns ...*ssa.Function) {
	changed := false
	for _, f := range fns {
		if f != nil && w.boundary[f] == "" {
			w.boundary[f] = why
			changed = true
		}
	}
	if changed {
		w.pathMemo = map[*ssa.Function][]*Path{}
		w.pathErr = map[*ssa.Function]error{}
		w.inlMemo = map[*ssa.Function]bool{}
		w.inlIfs = map[*ssa.Function]int{}
	}
}

func (w *World) computeCallFacts() {
	w.addrTaken = map[*ssa.Function]bool{}
	w.callers = map[*ssa.Function][]*ssa.Function{}
	callees := map[*ssa.Function][]*ssa.Function{}
	ifaceTypes := map[types.Type]bool{}
	invoked := map[string]bool{} // method names of the packages' interfaces and dynamic call sites
	for _, pk := range []*ssa.Package{w.SLib, w.SCmd} {
		sc := pk.Pkg.Scope()
		for _, n := range sc.Names() {
			if tn, ok := sc.Lookup(n).(*types.TypeName); ok {
				if it, ok := tn.Type().Underlying().(*types.Interface); ok {
					for i := 0; i < it.NumMethods(); i++ {
						invoked[it.Method(i).Name()] = true
					}
				}
			}
		}
	}
	for fn := range ssautil.AllFunctions(w.Prog) {
		if !w.inPkgs(fn) && fn.Synthetic == "" {
			continue
		}
		for _, b := range fn.Blocks {
			for _, in := range b.Instrs {
				var static *ssa.Value
				if ci, ok := in.(ssa.CallInstruction); ok && ci.Common().IsInvoke() {
					invoked[ci.Common().Method.Name()] = true
				}
				if c, ok := in.(*ssa.Call); ok && !c.Call.IsInvoke() {
					static = &c.Call.Value
					if cal := c.Call.StaticCallee(); cal != nil && w.inPkgs(cal) && w.inPkgs(fn) && fn.Synthetic == "" {
						w.callers[cal] = append(w.callers[cal], fn)
						callees[fn] = append(callees[fn], cal)
					}
				}
				if mi, ok := in.(*ssa.MakeInterface); ok {
					ifaceTypes[mi.X.Type()] = true
				}
				for _, op := range in.Operands(nil) {
					if op == static || *op == nil {
						continue
					}
					if f, ok := (*op).(*ssa.Function); ok && w.inPkgs(f) {
						w.addrTaken[f] = true
					}
				}
			}
		}
	}
	// a method of a type that is converted to an interface can be called
	// dynamically if some interface (or dynamic call site) names it
	for t := range ifaceTypes {
		ms := w.Prog.MethodSets.MethodSet(t)
		for i := 0; i < ms.Len(); i++ {
			if f := w.Prog.MethodValue(ms.At(i)); f != nil && w.inPkgs(f) && (ast.IsExported(f.Name()) || invoked[f.Name()]) {
				w.addrTaken[f] = true
			}
		}
	}
	// functions on a static call cycle
	w.recursive = map[*ssa.Function]bool{}
	for _, f := range w.Funcs {
		seen := map[*ssa.Function]bool{}
		var visit func(g *ssa.Function) bool
		visit = func(g *ssa.Function) bool {
			for _, c := range callees[g] {
				if c == f {
					return true
				}
				if !seen[c] {
					seen[c] = true
					if visit(c) {
						return true
					}
				}
			}
			return false
		}
		if visit(f) {
			w.recursive[f] = true
		}
	}
}

func (w *World) inlinable(fn *ssa.Function) bool {
	if v, ok := w.inlMemo[fn]; ok {
		return v
	}
	w.inlMemo[fn] = false
	ok := w.inlinable0(fn)
	w.inlMemo[fn] = ok
	return ok
}

func (w *World) inlinable0(fn *ssa.Function) bool {
	if w.NoInline || !w.inPkgs(fn) || len(fn.Blocks) == 0 || fn.Parent() != nil || (fn.Synthetic != "" && fn.Origin() == nil) {
		return false
	}
	if ast.IsExported(fn.Name()) || fn.Name() == "main" || fn.Name() == "init" || w.boundary[fn] != "" || w.recursive[fn] {
		return false
	}
	ifs := 0
	for _, b := range fn.Blocks {
		for _, s := range b.Succs {
			if s.Dominates(b) {
				return false // loop
			}
		}
		for _, in := range b.Instrs {
			switch in := in.(type) {
			case *ssa.Defer, *ssa.Go, *ssa.Select, *ssa.RunDefers:
				return false
			case *ssa.If:
				ifs++
			case *ssa.Call:
				if bi, ok := in.Call.Value.(*ssa.Builtin); ok && bi.Name() == "recover" {
					return false
				}
				if cal := in.Call.StaticCallee(); cal != nil && w.inlinable(cal) {
					ifs += w.inlIfs[cal]
				}
			}
		}
	}
	if ifs > w.inlBudget {
		return false
	}
	w.inlIfs[fn] = ifs
	return true
}

// covered: every use of fn is a static call from the analysed packages, each
// of which the explorer expands in place; fn needs no analysis of its own.
func (w *World) covered(fn *ssa.Function) bool {
	if fn.Parent() != nil {
		return w.closureCovered(fn)
	}
	return w.inlinable(fn) && !w.addrTaken[fn] && len(w.callers[fn]) > 0
}

// closureCovered: a function literal that is only ever called where it was
// made (directly, or by a helper it is handed to that is itself expanded in
// place) is explored inside its maker, with its free variables bound.
func (w *World) closureCovered(fn *ssa.Function) bool {
	if !w.closureInlinable(fn) {
		return false
	}
	parent := fn.Parent()
	made := 0
	for _, b := range parent.Blocks {
		for _, in := range b.Instrs {
			mc, ok := in.(*ssa.MakeClosure)
			if !ok || mc.Fn != ssa.Value(fn) {
				continue
			}
			made++
			refs := mc.Referrers()
			if refs == nil {
				return false
			}
			for _, ref := range *refs {
				call, ok := ref.(*ssa.Call)
				if !ok {
					if _, dbg := ref.(*ssa.DebugRef); dbg {
						continue
					}
					return false
				}
				if call.Call.Value == ssa.Value(mc) {
					continue // called right here
				}
				cal := call.Call.StaticCallee()
				if cal == nil || !w.inlinable(cal) {
					return false
				}
			}
		}
	}
	return made > 0
}

// rootFuncs: the functions of a package that are analysed on their own.
func (w *World) rootFuncs(pkg *ssa.Package) []*ssa.Function {
	var out []*ssa.Function
	for _, f := range w.Funcs {
		if f.Pkg == pkg && !w.covered(f) {
			out = append(out, f)
		}
	}
	return out
}

// rootsOf: the analysed functions in whose exploration fn's body appears
// (fn itself unless it is covered).
func (w *World) rootsOf(fn *ssa.Function) []*ssa.Function {
	seen := map[*ssa.Function]bool{}
	var out []*ssa.Function
	var visit func(f *ssa.Function)
	visit = func(f *ssa.Function) {
		if seen[f] {
			return
		}
		seen[f] = true
		if !w.covered(f) {
			out = append(out, f)
			return
		}
		for _, c := range w.callers[f] {
			visit(c)
		}
	}
	visit(fn)
	sort.Slice(out, func(i, j int) bool { return out[i].String() < out[j].String() })
	return out
}

// inlinedInto: does the exploration of root expand fn (at any depth)?
func (w *World) inlinedInto(root, fn *ssa.Function) bool {
	for _, r := range w.rootsOf(fn) {
		if r == root {
			return true
		}
	}
	return false
}

// CallerRoots: the analysed functions whose exploration contains a call of fn
// (the call may sit in a helper that is expanded in place).
func (w *World) CallerRoots(fn *ssa.Function) []*ssa.Function {
	seen := map[*ssa.Function]bool{}
	var out []*ssa.Function
	for _, call := range w.Callers(fn) {
		for _, r := range w.rootsOf(call.Parent()) {
			if !seen[r] {
				seen[r] = true
				out = append(out, r)
			}
		}
	}
	sort.Slice(out, func(i, j int) bool { return out[i].String() < out[j].String() })
	return out
}

// funcByKey: the source function (named or literal) with this term key.
func (w *World) funcByKey(key string) *ssa.Function {
	if w.byKey == nil {
		w.byKey = map[string]*ssa.Function{}
		for _, f := range w.Funcs {
			w.byKey[fnKey(f)] = f
		}
	}
	return w.byKey[key]
}

// closureInlinable: a function literal called through a value known on the
// path can be expanded in place when it is loop-free and small.
func (w *World) closureInlinable(fn *ssa.Function) bool {
	if w.NoInline || fn == nil || len(fn.Blocks) == 0 {
		return false
	}
	ifs := 0
	for _, b := range fn.Blocks {
		for _, s := range b.Succs {
			if s.Dominates(b) {
				return false
			}
		}
		for _, in := range b.Instrs {
			switch in.(type) {
			case *ssa.Defer, *ssa.Go, *ssa.Select, *ssa.RunDefers:
				return false
			case *ssa.If:
				ifs++
			}
		}
	}
	return ifs <= maxInlineIfs
}

// initialValue: the value the package initialiser gives to a package-level
// variable (or to an element of a literal it builds), when no other function
// ever stores to that variable.  Lets table-driven code be read as the table.
func (w *World) initialValue(lv *T) (*T, bool) {
	root := lv
	for root.Op == "sel" || root.Op == "elem" {
		root = root.A[0]
	}
	if root.Op != "global" && !(root.Op == "new" && strings.HasPrefix(root.S, "init.")) {
		return nil, false
	}
	if w.globalInit == nil {
		w.globalInit = map[string]*T{}
		w.globalInitLV = map[string]*T{}
		w.globalRO = map[string]bool{}
		w.initMaps = map[string][]mapEntry{}
		w.mapGlobal = map[string][]string{}
		var pendingHeaps []map[string]*T
		for _, pk := range []*ssa.Package{w.SLib, w.SCmd} {
			initFn := pk.Func("init")
			if initFn == nil || len(initFn.Blocks) == 0 {
				continue
			}
			ex := &Explorer{W: w, Fn: initFn, MaxPaths: 64, NoInline: true}
			ps, err := ex.Run()
			if err != nil {
				continue
			}
			// the initialiser is guarded by "already initialised?": the path that does the work
			// is the one that does not return at once; any further branching means no table is read
			var work []*Path
			for _, p := range ps {
				if len(p.Events) > 1 {
					work = append(work, p)
				}
			}
			if len(work) != 1 {
				continue
			}
			for k, v := range work[0].Heap {
				w.globalInit[k] = v
				w.globalInitLV[k] = work[0].HeapLV[k]
				if v.Op == "makemap" && strings.HasPrefix(k, "global:") {
					w.mapGlobal[v.Key()] = append(w.mapGlobal[v.Key()], strings.TrimPrefix(k, "global:"))
				}
			}
			for _, ev := range work[0].Events {
				if ev.Kind == "mapupdate" && ev.LV != nil && ev.LV.Op == "makemap" {
					w.initMaps[ev.LV.Key()] = append(w.initMaps[ev.LV.Key()], mapEntry{ev.Args[0], ev.Val})
				}
			}
			pendingHeaps = append(pendingHeaps, work[0].Heap)
		}
		// globals some function other than an initialiser stores to are not tables
		written := map[string]bool{}
		for _, f := range w.Funcs {
			if f.Name() == "init" {
				continue
			}
			for k := range w.mods[f] {
				if strings.HasPrefix(k, "global:") {
					written[strings.TrimPrefix(k, "global:")] = true
				}
			}
			if w.modUnk[f] {
				// an unknown callee cannot reach unexported package variables; exported ones are excluded below
			}
		}
		for _, pk := range []*ssa.Package{w.SLib, w.SCmd} {
			for name, mem := range pk.Members {
				if g, ok := mem.(*ssa.Global); ok && !written[g.Name()] && !ast.IsExported(name) {
					w.globalRO[g.Name()] = true
				}
			}
		}
		// a package variable initialised by calling a function of the module without arguments
		// (var t = func() map[K]V { ... }()): the map that function builds on its single path
		for _, heap := range pendingHeaps {
			for k, v := range heap {
				if !strings.HasPrefix(k, "global:") || v.Op != "call" || len(v.A) != 0 {
					continue
				}
				g := w.funcByKey(v.S)
				if g == nil || len(g.Blocks) == 0 || !w.inPkgs(g) {
					continue
				}
				w.globalInit[k] = v // (placeholder while the builder itself is explored)
				gx := &Explorer{W: w, Fn: g, MaxPaths: 8, NoInline: true}
				gps, err := gx.Run()
				if err != nil || len(gps) != 1 || gps[0].End != "ret" || len(gps[0].Ret) != 1 || gps[0].Ret[0].Op != "makemap" {
					continue
				}
				built := gps[0].Ret[0]
				w.builtMaps++
				nm := &T{Op: "makemap", C: 1000000 + int64(w.builtMaps), Ty: built.Ty}
				for _, ev := range gps[0].Events {
					if ev.Kind == "mapupdate" && ev.LV != nil && ev.LV.Key() == built.Key() {
						w.initMaps[nm.Key()] = append(w.initMaps[nm.Key()], mapEntry{ev.Args[0], ev.Val})
					}
				}
				w.globalInit[k] = nm
				w.mapGlobal[nm.Key()] = append(w.mapGlobal[nm.Key()], strings.TrimPrefix(k, "global:"))
			}
		}
	}
	if root.Op == "global" && !w.globalRO[root.S] {
		return nil, false
	}
	if v, ok := w.globalInit[lv.Key()]; ok {
		return v, true
	}
	// a field of an element the initialiser stored as one struct value
	if lv.Op == "sel" {
		if pv, ok := w.initialValue(lv.A[0]); ok && pv.Op == "struct" {
			return mksel(pv, lv.S, lv.Ty), true
		}
	}
	return nil, false
}

// initialised: lv lies inside a literal the package initialiser allocated
// (an array behind a package-level slice or table), which nothing else writes.
func (w *World) initialised(lv *T) bool {
	root := lv
	for root.Op == "sel" || root.Op == "elem" {
		root = root.A[0]
	}
	w.initialValue(root) // make sure the tables are loaded
	if root.Op == "global" {
		return w.globalRO[root.S]
	}
	return root.Op == "new" && strings.HasPrefix(root.S, "init.")
}

// constPath: every index on the way to lv is a constant.
func constPath(lv *T) bool {
	for lv.Op == "sel" || lv.Op == "elem" {
		if lv.Op == "elem" && !lv.A[1].IsConst() {
			return false
		}
		lv = lv.A[0]
	}
	return true
}

func (w *World) readOnlyGlobal(name string) bool {
	w.initialValue(&T{Op: "global", S: name})
	return w.globalRO[name]
}

// privateCell: a heap cell the compiler made for a local variable that is
// captured by function literals, all of which are expanded in place: only the
// function itself (and those literals) can read or write it.
func (w *World) privateCell(a *ssa.Alloc) bool {
	if !a.Heap || a.Referrers() == nil {
		return false
	}
	closures := 0
	for _, ref := range *a.Referrers() {
		switch r := ref.(type) {
		case *ssa.Store:
			if r.Val == ssa.Value(a) {
				return false // the address itself is stored somewhere
			}
		case *ssa.UnOp, *ssa.DebugRef, *ssa.FieldAddr, *ssa.IndexAddr:
		case *ssa.MakeClosure:
			fn, ok := r.Fn.(*ssa.Function)
			if !ok || !w.closureCovered(fn) {
				return false
			}
			closures++
		default:
			return false
		}
	}
	return closures > 0
}

// paramFacts: what a parameter of an unexported function is known to equal on
// entry because every call site passes the same expression of the other
// arguments and of memory that is current at the call — e.g. n == len(s.list)
// for results(n) always called as s.results(len(s.list)).  The fact is
// expressed over the callee's own parameters, with memory reads at the
// callee's entry epoch.
func (w *World) paramFacts(fn *ssa.Function) map[string]*T {
	if w.pfacts == nil {
		w.pfacts = map[*ssa.Function]map[string]*T{}
	}
	if f, ok := w.pfacts[fn]; ok {
		return f
	}
	w.pfacts[fn] = nil
	if fn == nil || ast.IsExported(fn.Name()) || w.addrTaken[fn] || fn.Synthetic != "" || len(fn.Blocks) == 0 {
		return nil
	}
	sites := map[ssa.Instruction]bool{}
	for _, c := range w.Callers(fn) {
		sites[c] = false
	}
	if len(sites) == 0 {
		return nil
	}
	var calls []*Event
	for _, root := range w.CallerRoots(fn) {
		if root == fn {
			return nil
		}
		paths, err := w.Paths(root)
		if err != nil {
			return nil
		}
		for _, p := range paths {
			for k := range p.Events {
				e := &p.Events[k]
				if e.Kind == "call" && e.Callee == fn && len(e.Args) == len(fn.Params) && len(e.Cur) == len(e.Args) {
					sites[e.Instr] = true
					calls = append(calls, e)
				}
			}
		}
	}
	for _, seen := range sites {
		if !seen {
			return nil // a call site in code that is not explored
		}
	}
	facts := map[string]*T{}
	for k, prm := range fn.Params {
		var fact *T
		for _, e := range calls {
			t := w.inCalleeTerms(fn, e, k)
			if t == nil || (fact != nil && fact.Key() != t.Key()) {
				fact = nil
				break
			}
			fact = t
		}
		if fact != nil {
			facts[prm.Name()] = fact
		}
	}
	w.pfacts[fn] = facts
	return facts
}

// inCalleeTerms rewrites argument k of a call into the callee's vocabulary:
// other arguments become the parameters they are bound to, memory reads must
// be current at the call and rooted in those.  nil when that is not possible
// or when the argument is just the parameter itself.
func (w *World) inCalleeTerms(fn *ssa.Function, e *Event, k int) *T {
	if !e.Cur[k] {
		return nil
	}
	byKey := map[string]*T{}
	for j, a := range e.Args {
		if j != k && (a.Op == "p" || a.Op == "deref" || a.Op == "sel") {
			byKey[a.Key()] = tparam(fn.Params[j].Name(), fn.Params[j].Type())
		}
	}
	ok, bound := true, false
	t := rewrite(e.Args[k], func(x *T) *T {
		if p, has := byKey[x.Key()]; has {
			bound = true
			return p
		}
		switch x.Op {
		case "c", "str", "len", "conv", "add", "sub", "mul", "sel", "deref", "elem":
			return nil
		}
		ok = false
		return x
	})
	if !ok || !bound {
		return nil
	}
	// reads at the callee's entry epoch
	var renum func(x *T) *T
	renum = func(x *T) *T {
		n := *x
		n.k = ""
		n.A = make([]*T, len(x.A))
		for i, a := range x.A {
			n.A[i] = renum(a)
		}
		if x.E != 0 {
			n.E = 1
		}
		return &n
	}
	return renum(t)
}

type mapEntry struct{ key, val *T }

// roInitMap: t is a map the package initialiser built with constant keys for
// an unexported package variable that is only ever looked up, ranged over or
// measured afterwards: its entries, as the initialiser stored them.
func (w *World) roInitMap(t *T) ([]mapEntry, bool) {
	if t == nil || t.Op != "makemap" {
		return nil, false
	}
	w.initialValue(&T{Op: "global", S: "-"}) // make sure the tables are loaded
	gs := w.mapGlobal[t.Key()]
	if os.Getenv("GMARSLINT_DEBUG") != "" {
		fmt.Println("roInitMap", t.Key(), gs, w.mapGlobal)
	}
	if len(gs) != 1 || !w.globalRO[gs[0]] {
		if os.Getenv("GMARSLINT_DEBUG") != "" {
			fmt.Println("roInitMap: not RO", gs)
		}
		return nil, false
	}
	if ro, ok := w.mapRO[gs[0]]; ok {
		if !ro {
			return nil, false
		}
		return w.initMaps[t.Key()], true
	}
	if w.mapRO == nil {
		w.mapRO = map[string]bool{}
	}
	ro := true
	for _, f := range w.Funcs {
		for _, b := range f.Blocks {
			for _, in := range b.Instrs {
				var val ssa.Value
				switch in := in.(type) {
				case *ssa.UnOp:
					if g, ok := in.X.(*ssa.Global); ok && in.Op == token.MUL && g.Name() == gs[0] {
						val = in
					}
				case *ssa.MakeMap:
					if f.Name() == "init" {
						for _, r := range *in.Referrers() {
							if st, ok := r.(*ssa.Store); ok {
								if g, ok := st.Addr.(*ssa.Global); ok && g.Name() == gs[0] {
									val = in
								}
							}
						}
					}
				}
				if val == nil {
					continue
				}
				for _, r := range *val.Referrers() {
					switch r := r.(type) {
					case *ssa.Lookup:
						if r.X != val {
							ro = false
						}
					case *ssa.Range, *ssa.DebugRef:
					case *ssa.MapUpdate:
						if f.Name() != "init" || r.Map != val {
							ro = false
						}
					case *ssa.Store:
						if g, ok := r.Addr.(*ssa.Global); !ok || g.Name() != gs[0] || f.Name() != "init" {
							ro = false
						}
					case *ssa.Call:
						if bi, ok := r.Call.Value.(*ssa.Builtin); !ok || bi.Name() != "len" {
							ro = false
						}
					default:
						ro = false
					}
					if !ro && os.Getenv("GMARSLINT_DEBUG") != "" {
						fmt.Printf("roInitMap: %s used by %T in %s\n", gs[0], r, f)
					}
				}
			}
		}
	}
	for _, en := range w.initMaps[t.Key()] {
		if k := stripConv(en.key); !k.IsConst() && k.Op != "str" {
			ro = false
			if os.Getenv("GMARSLINT_DEBUG") != "" {
				fmt.Println("roInitMap: key", k.Show())
			}
		}
	}
	w.mapRO[gs[0]] = ro
	if !ro {
		return nil, false
	}
	return w.initMaps[t.Key()], true
}
