package main

var commonAssume = []string{
	"A1: warriors given to AddWarrior have declared enum values, fields < CoreSize and Start inside the code (established for assembler/loader output by C06/C10)",
	"A2: 3 <= CoreSize <= 2^32 so products of two fields do not overflow uint64; configuration small enough to allocate",
	"A3: go/types, go/ssa (x/tools v0.29.0) model the program faithfully",
	"A5: reporters do not call back into the simulator",
	"A6: test files and cmd/vmars are out of scope",
}

var properties = map[string]*Property{
	"C01": {ID: "C01",
		Rules:      []string{"ROLES", "FOLD.arg", "FOLD.load", "FOLD.store", "FOLD.jump", "FOLD.limit", "FOLD.body", "ORDER.operand", "TAB.dispatch", "TAB.flow", "TASK.term", "MOD.div", "SPL.order", "MOD.store", "QUEUE.cap"},
		Explain:    "Structural clauses of 'one step == ICWS'94 step': every executor path (8x8 addressing-mode pairs x 17 opcodes, obtained by value-set refinement, nothing executed) and every helper path (7 modifiers x data-dependent outcomes) is compared with the ICWS'94 effect table: which pointer is folded with which limit at which level, order of operand side effects and fetches, modifier->field flows, arithmetic form modulo M, tested fields and and/or structure, successor(s) queued, division by zero.",
		NotDecided: "Equality of concrete values on concrete cores; folds written in a shape other than the standard's (reported undecided); FIFO order inside the queue beyond its index discipline.",
		Assumes:    commonAssume},
	"C02": {ID: "C02",
		Rules:      []string{"SCHED.loop", "QUEUE.cap", "MOD.queue", "SPL.order", "TASK.term", "PAIR.alive", "DEATH.report", "CYCLE.cap", "RUN.only", "RUN.progress", "POP.report"},
		Explain:    "Shape of the scheduler: the cycle loop visits warriors from the (always zero) cursor to the count by one; under state == alive exactly one task is popped from warriors[i] and that popped PC is executed on warriors[i], pop before execution; pushes go to the back of a bounded ring (length < size guard, cursors % size); SPL queues PC+1 then the target; death exactly when the queue is empty after execution, paired with living--, reported; early stop only on (count > 1, death, living == 1); cycle counter capped; Run only loops RunCycle, terminates on every non-progress return, and reports Alive() per index.",
		NotDecided: "Trace equality with a reference scheduler on concrete battles.",
		Assumes:    commonAssume},
	"C13": {ID: "C13",
		Rules:      []string{"API.index", "API.nil", "MOD.index", "MOD.push", "SPAWN.mod", "RUN.progress", "RUN.only", "RESET.cover", "PAIR.alive", "REFUSE.pure", "MOD.len", "CYCLE.cap"},
		Explain:    "No index/nil panic from exported methods for any argument (warrior-list indices bounded 0 <= i < count with count == len(list); queue pointer dereferenced only under nil/alive guards; GetMem reduced); Run terminates on finished/empty/never-started battles; Reset or re-spawn re-initialises every field a battle changes (queue unconditionally re-created); revival paired with counters; calls that return an error have not changed state.",
		NotDecided: "Equality of observable state with a reference model after every call sequence.",
		Assumes:    commonAssume},
	"C04": {ID: "C04",
		Rules:      []string{"MOD.index", "MOD.store", "MOD.push", "MOD.report", "MOD.div", "MOD.len", "MOD.cfg", "MOD.queue", "QUEUE.cap", "CYCLE.cap", "PAIR.alive", "API.index", "ROLES"},
		Explain:    "Inductive range invariant of the simulator: every core index, stored A/B field, queued program counter and report address is reduced modulo the core size on every path; no division by an untested data value; configuration fields used as divisor/modulus/allocation size are validated; queue indices and length stay within capacity; cycle counter capped; living count paired with state changes.",
		NotDecided: "Panics other than index/nil/divide (allocation failure, stack exhaustion); behaviour of reporter callbacks.",
		Assumes:    commonAssume},
	"C11": {ID: "C11",
		Rules:      []string{"ROLES", "FOLD.arg", "FOLD.limit", "FOLD.load", "FOLD.store", "FOLD.jump", "FOLD.body"},
		Explain:    "Provenance discipline of every core access and jump target: writes only at write-folded offsets of the B chain or of the operand's own first-level pointer; fetches and jump targets only at read-folded offsets; second-level pointers re-folded with the same limit; the fold helpers are the standard's Fold term for term.",
		NotDecided: "The numeric consequence (circular distance <= floor(L/2)) is arithmetic about the standard's Fold, argued once on paper in DESIGN.md, not re-derived from the code. Limits larger than the core are outside the property.",
		Assumes:    commonAssume},
	"C12": {ID: "C12",
		Rules:      []string{"NI", "SPAWN.mod", "MOD.index", "MOD.push", "ROLES", "FOLD.jump"},
		Explain:    "Premises of rotation equivariance: absolute addresses (PC and PC-derived) flow only into core indices, queue pushes and report addresses, always as (PC + relative) % M, never into stored data or branch conditions; loading, the initial task and all indices wrap modulo M.",
		NotDecided: "The induction over steps that turns per-step equivariance into whole-battle equivariance is a paper argument; overflow of offset+length beyond 64 bits.",
		Assumes:    commonAssume},
	"C15": {ID: "C15",
		Rules:      []string{"MOD.report", "POP.report", "PAIR.report", "TASK.term", "DEATH.report", "TAB.recorder", "ROLES"},
		Explain:    "Every warrior report carries a reduced address and the executing warrior's index; each executed task is preceded by a task-pop report with the same PC; every core store is matched on every path by a write/increment/decrement report at the same address; task termination reported exactly on the paths without a push; warrior death reported with the state change; the recorder's switch stores the table value for every core-touching report type and resets all cells.",
		NotDecided: "That listeners interpret the stream as intended; equality of the recorder state with a reference fold on concrete battles.",
		Assumes:    commonAssume},
}

func thorough(w *World, p *Property, results []*RuleResult, extra map[string]any) {}
