package main

// C08 (thin, necessary conditions only): FOR/ROF expansion wiring and pass budget.

import (
	"fmt"
	"go/types"
	"sort"
	"strings"

	"golang.org/x/tools/go/ssa"
)

func init() {
	register(&Rule{Name: "FOR.passes", Min: 2, Doc: "the FOR driver loop is bounded by a constant and the budget (passes x blocks per pass) covers 40 expansions", Run: ruleForPasses})
	register(&Rule{Name: "WIRE.for", Min: 8, Doc: "label mangling agrees between definition and reference; count, counter value, nesting depth and per-pass symbol scan are wired as the expansion needs", Run: ruleWireFor})
}

const forExpansionsRequired = 40 // the property quantifies over programs with up to 40 FOR expansions

func forMachine(w *World) *machine {
	for _, m := range machines(w) {
		if m.run != nil && !m.isLexer {
			return m
		}
	}
	return nil
}

func ruleForPasses(w *World, r *RuleResult) {
	cw := w.LibFunc("CompileWarrior")
	fe := w.LibFunc("ForExpand")
	if cw == nil || fe == nil {
		r.undecided("anchor", "-", "CompileWarrior / ForExpand not found")
		return
	}
	paths, err := w.Paths(cw)
	if err != nil {
		r.undecided("paths", w.Pos(cw.Pos()), err.Error())
		return
	}
	// the driver loop: back edges that called ForExpand; the bound is the constant K in (K < counter+1) on the error exit
	bound := int64(-1)
	boundPos := w.Pos(cw.Pos())
	unbounded := false
	for _, p := range paths {
		calls := false
		for _, e := range p.Events {
			if e.Kind == "call" && e.Callee == fe {
				calls = true
			}
		}
		if !calls || p.End != "backedge" {
			continue
		}
		be := p.Events[len(p.Events)-1]
		found := false
		for _, cd := range p.Conds {
			a := cd.Atom
			if (a.Op == "lt" || a.Op == "le") && !cd.Val && a.A[0].IsConst() {
				l := linearOf(a.A[1])
				if len(l.Coef) == 1 {
					for _, at := range l.Atom {
						if at.Op == "loopvar" {
							// the counter must really advance by one on the back edge
							adv := false
							for _, arg := range be.Args {
								la := linearOf(arg)
								if la.Const == 1 && len(la.Coef) == 1 && la.Coef[at.Show()] == 1 {
									adv = true
								}
							}
							if adv {
								k := a.A[0].C - l.Const
								if a.Op == "le" {
									k--
								}
								// loop continues while counter+const <= K  => at most K+1-const... passes counted from 0
								bound = k + 1
								boundPos = w.Pos(cd.Pos)
								found = true
							}
						}
					}
				}
			}
		}
		if !found {
			unbounded = true
		}
	}
	if unbounded || bound < 0 {
		r.bad("driver/bounded", boundPos, "the repeat-until-no-FOR loop in CompileWarrior is not bounded by a constant pass limit on every back edge: a FOR that keeps reappearing would loop forever")
		return
	}
	r.ok("driver/bounded", boundPos, fmt.Sprintf("at most %d expansion passes, then an error", bound))
	// blocks expanded per pass: can the expander reach a block-opening state again after closing a block?
	m := forMachine(w)
	per := int64(1)
	if m != nil {
		g := buildGraph(w, m)
		// block-opening state: the one that evaluates the count (calls ExpandAndEvaluate)
		open := ""
		closeSt := ""
		for _, s := range m.states {
			ps, _ := w.Paths(s)
			for _, p := range ps {
				for _, e := range p.Events {
					if e.Kind == "call" && e.Callee != nil && e.Callee.Name() == "ExpandAndEvaluate" {
						open = fnKey(s)
					}
				}
			}
		}
		// closing state: reaches states from which `open` is unreachable? find states reachable after the counted emit loop
		reach := func(from string) map[string]bool {
			seen := map[string]bool{}
			var visit func(s string)
			visit = func(s string) {
				if seen[s] {
					return
				}
				seen[s] = true
				for _, t := range g.trans[s] {
					if t.to != "" && t.to != "?" && t.to != "<loop>" {
						visit(t.to)
					}
				}
			}
			visit(from)
			return seen
		}
		for _, s := range m.states {
			ps, _ := w.Paths(s)
			for _, p := range ps {
				for _, cd := range p.Conds {
					if cd.Atom.contains(func(x *T) bool { return x.Op == "sel" && x.S == "forCount" }) {
						closeSt = fnKey(s)
					}
				}
			}
		}
		if open != "" && closeSt != "" {
			after := map[string]bool{}
			for _, t := range g.trans[closeSt] {
				if t.to != "" && t.to != "?" && t.to != "<loop>" {
					for k := range reach(t.to) {
						after[k] = true
					}
				}
			}
			if after[open] {
				per = forExpansionsRequired // can open another block in the same pass
			}
			r.ok("expander/blocks-per-pass", w.Pos(m.run.Pos()), fmt.Sprintf("block opened in %s, closed in %s; further blocks in the same pass: %v", open, closeSt, after[open]))
		} else {
			r.undecided("expander/blocks-per-pass", w.Pos(m.run.Pos()), "could not identify the block-opening / block-closing states")
		}
	}
	budget := bound * per
	r.check(budget >= forExpansionsRequired, "budget", boundPos, fmt.Sprintf("budget %d expansions >= %d", budget, forExpansionsRequired),
		fmt.Sprintf("one FOR block is expanded per pass and only %d passes are allowed, so a program with %d (sequential or nested) FOR expansions is rejected although its unrolled form assembles; the property covers up to %d expansions", bound, bound+1, forExpansionsRequired))
}

func ruleWireFor(w *World, r *RuleResult) {
	m := forMachine(w)
	if m == nil {
		r.undecided("anchor", "-", "FOR expander state machine not found")
		return
	}
	d := newDedup(r)
	// (1) label mangling sites
	type site struct {
		format string
		a0, a1 string
		pos    string
		fn     string
	}
	var sites []site
	seenSite := map[string]bool{}
	// the states, and the functions of the module they call that are explored on their own
	// (a helper with a loop that builds the list of mangled names)
	scan := append([]*ssa.Function(nil), m.states...)
	usedBy := map[string]map[string]bool{}
	for _, s := range m.states {
		ps, _ := w.Paths(s)
		for _, p := range ps {
			for i := range p.Events {
				e := &p.Events[i]
				if e.Kind == "call" && e.Callee != nil && e.Callee.Pkg == w.SLib && len(e.Callee.Blocks) > 0 {
					if usedBy[e.Callee.Name()] == nil {
						usedBy[e.Callee.Name()] = map[string]bool{}
						scan = append(scan, e.Callee)
					}
					usedBy[e.Callee.Name()][s.Name()] = true
				}
			}
		}
	}
	for _, s := range scan {
		ps, _ := w.Paths(s)
		for _, p := range ps {
			for i := range p.Events {
				e := &p.Events[i]
				var cands []*T
				cands = append(cands, e.Val, e.Res)
				cands = append(cands, e.Args...)
				for _, cand := range cands {
					if cand == nil {
						continue
					}
					cand.walk(func(mt *T) bool {
						format, margs, isM := mangleOf(p, mt)
						if !isM {
							return true
						}
						if seenSite[s.Name()+"/"+w.Pos(instrPosE(e))+"/"+format] {
							return false
						}
						seenSite[s.Name()+"/"+w.Pos(instrPosE(e))+"/"+format] = true
						get := func(k int) string {
							if k >= len(margs) || margs[k] == nil {
								return "?"
							}
							x := margs[k]
							x = stripConv(x)
							if x.Op == "iface" {
								x = stripConv(x.A[0])
							}
							// role: a machine field, or an element of a machine field
							if x.Op == "sel" && x.A[0].Op == "deref" {
								return "field:" + x.S
							}
							if x.Op == "elem" {
								if b := stripConv(x.A[0]); b.Op == "sel" {
									return "elem-of:" + b.S
								}
								// the list was assigned to a field earlier on this path: name it by that field
								for _, e2 := range p.Events {
									if e2.Kind == "store" && e2.LV.Op == "sel" && e2.LV.A[0].Op == "deref" && e2.Val.Key() == x.A[0].Key() {
										return "elem-of:" + e2.LV.S
									}
								}
							}
							// a value the path has found to be a member of a machine list: that list's element
							for _, cd := range p.Conds {
								a := cd.Atom
								if cd.Val && a.Op == "call" && strings.HasPrefix(a.S, "slices.Contains") && len(a.A) == 2 && sameTerm(a.A[1], x) {
									if b := stripConv(a.A[0]); b.Op == "sel" && b.A[0].Op == "deref" {
										return "elem-of:" + b.S
									}
								}
								if cd.Val && a.Op == "eq" {
									for k := 0; k < 2; k++ {
										if o := stripConv(a.A[1-k]); sameTerm(a.A[k], x) && o.Op == "elem" {
											if b := stripConv(o.A[0]); b.Op == "sel" && b.A[0].Op == "deref" {
												return "elem-of:" + b.S
											}
										}
									}
								}
							}
							return stripEpoch(x).Key()
						}
						sites = append(sites, site{format, get(0), get(1), w.Pos(instrPosE(e)), s.Name()})
						return false
					})
				}
			}
		}
	}
	shared := len(sites) == 1 && len(usedBy[sites[0].fn]) >= 2
	if len(sites) < 2 && !shared {
		d.add(false, "mangle/sites", w.Pos(m.run.Pos()), "", fmt.Sprintf("expected a definition site and a reference site for mangled block labels, found %d", len(sites)))
	} else {
		ref := sites[0]
		same := true
		for _, s := range sites[1:] {
			if s.format != ref.format || s.a0 != ref.a0 || s.a1 != ref.a1 {
				same = false
				d.add(false, "mangle/agree", s.pos, "", fmt.Sprintf("block labels are mangled as Sprintf(%q, %s, %s) in %s but Sprintf(%q, %s, %s) in %s: a reference inside the body no longer names the label emitted before the first body instruction", ref.format, ref.a0, ref.a1, ref.fn, s.format, s.a0, s.a1, s.fn))
			}
		}
		if same {
			d.add(true, "mangle/agree", ref.pos, fmt.Sprintf("%d sites use Sprintf(%q, %s, %s)", len(sites), ref.format, ref.a0, ref.a1), "")
		}
		fnsSeen := map[string]bool{}
		for _, s := range sites {
			fnsSeen[s.fn] = true
		}
		both := len(fnsSeen) >= 2
		for fn := range fnsSeen {
			if len(usedBy[fn]) >= 2 {
				both = true // one helper computes the names for the defining and the referencing state alike
			}
		}
		d.add(both, "mangle/both-sides", ref.pos, "definition and reference sites both mangle", "only one state mangles block labels")
	}
	// (2) count wiring and counter substitution
	for _, s := range m.states {
		ps, _ := w.Paths(s)
		for _, p := range ps {
			for i := range p.Events {
				e := &p.Events[i]
				if e.Kind == "call" && e.Callee != nil && e.Callee.Name() == "ExpandAndEvaluate" {
					a0, a1 := stripConv(e.Args[0]), stripConv(e.Args[1])
					good := a1.Op == "sel" && a1.S == "symbols"
					d.add(good, "count/symbols", w.Pos(instrPosE(e)), "count evaluated against the pre-scanned symbols", "FOR count is evaluated against "+a1.Show()+", not the symbols gathered by the pre-scan")
					_ = a0
					// the value becomes forCount on the success edge
					val := &T{Op: "ext", C: 1, A: []*T{e.Res}}
					stored := false
					for _, e2 := range p.Events[i+1:] {
						if e2.Kind == "store" && e2.LV.Op == "sel" && e2.LV.S == "forCount" && e2.Val.Key() == val.Key() {
							stored = true
						}
					}
					okEdge := hasCond(p, func(a *T, v bool) bool {
						return a.Op == "eq" && v && a.A[1].Op == "nil" && a.A[0].Op == "ext" && a.A[0].A[0].Key() == e.Res.Key()
					})
					if okEdge && p.End == "ret" {
						d.add(stored, "count/stored", w.Pos(instrPosE(e)), "evaluated count becomes the repeat count", "the evaluated FOR count is not stored as the repeat count")
					}
				}
			}
			// repeat loop: counter from 1, step 1, while counter <= forCount; counter printed for the counter name
			if p.End == "backedge" {
				for _, cd := range p.Conds {
					a := cd.Atom
					if (a.Op == "le" || a.Op == "lt") && cd.Val && a.A[0].Op == "loopvar" && stripConv(a.A[1]).Op == "sel" && stripConv(a.A[1]).S == "forCount" {
						init := ""
						for _, e := range p.Events {
							if e.Kind == "enterloop" && len(e.Args) > 0 && e.Args[0].IsConst() {
								init = fmt.Sprint(e.Args[0].C)
							}
						}
						firstInit := "?"
						for _, e := range p.Events {
							if e.Kind == "enterloop" && len(e.Args) == 1 && e.Args[0].IsConst() {
								firstInit = fmt.Sprint(e.Args[0].C)
								break
							}
						}
						_ = init
						d.add(a.Op == "le" && firstInit == "1", "repeat/1..count", w.Pos(cd.Pos), "body repeated for counter = 1 .. count", fmt.Sprintf("the body is repeated for a counter starting at %s while counter %s count; unrolling means 1 .. count inclusive", firstInit, map[string]string{"le": "<=", "lt": "<"}[a.Op]))
					}
				}
			}
			for i := range p.Events {
				e := &p.Events[i]
				if v, ok := sendOf(w, e); ok && v.Op == "struct" {
					// a reference to a block label: the mangled name replaces a body token only under an exact
					// comparison of that token's text with the label
					if val := structField(v, "val"); val != nil && (isMangled(p, val) || (stripConv(val).Op == "elem" && stripConv(stripConv(val).A[0]).Op == "call" && makesMangledList(w, w.funcByKey(stripConv(stripConv(val).A[0]).S)))) {
						fromContent := false
						for _, cd := range p.Conds {
							if cd.Atom.contains(func(x *T) bool { return x.Op == "elem" && strings.Contains(stripConv(x.A[0]).Show(), "forContent") }) {
								fromContent = true
							}
						}
						if fromContent {
							exact := hasCond(p, func(a *T, vv bool) bool {
								return a.Op == "eq" && vv && a.A[0].Op != "str" && a.A[1].Op != "str" &&
									(strings.Contains(a.A[0].Show(), "forLineLabels") || strings.Contains(a.A[1].Show(), "forLineLabels")) &&
									(strings.Contains(a.A[0].Show(), "forContent") || strings.Contains(a.A[1].Show(), "forContent"))
							}) || hasCond(p, func(a *T, vv bool) bool {
								return a.Op == "lt" && !vv && a.A[0].Op == "call" && strings.HasPrefix(a.A[0].S, "slices.Index[") // j := slices.Index(labels, tok.val); j >= 0
							}) || hasCond(p, func(a *T, vv bool) bool {
								return a.Op == "call" && vv && strings.HasPrefix(a.S, "slices.Contains") && len(a.A) == 2 &&
									strings.Contains(a.A[0].Show(), "forLineLabels") && strings.Contains(a.A[1].Show(), "forContent")
							})
							d.add(exact, "label/exact-name", w.Pos(instrPosE(e)), "a body token is replaced by the mangled label only when its text equals the label exactly", "a body token is replaced by a mangled block label without an exact comparison of its text with the label (symbols are case sensitive)")
						}
					}
					// the counter token: number formatted from the repeat counter under tok.val == forCountLabel
					val := structField(v, "val")
					if val != nil && val.Op == "call" && val.S == "fmt.Sprintf" {
						els := elementsOf(p, val.A[1])
						for _, x := range els {
							x = stripConv(x)
							if x.Op == "iface" {
								x = stripConv(x.A[0])
							}
							underLabel := hasCond(p, func(a *T, vv bool) bool {
								return a.Op == "eq" && vv && (strings.Contains(a.A[0].Show(), "forCountLabel") || strings.Contains(a.A[1].Show(), "forCountLabel"))
							})
							if underLabel {
								d.add(x.Op == "loopvar", "counter/value", w.Pos(instrPosE(e)), "the counter name is replaced by the repeat counter", "the counter name is replaced by "+x.Show()+", not the current repeat counter")
							} else if x.Op == "loopvar" && structField(v, "typ") != nil && structField(v, "typ").IsConst() {
								// a number made from the repeat counter is emitted, but not under "this token is exactly the counter name"
								d.add(false, "counter/exact-name", w.Pos(instrPosE(e)), "", "the repeat counter is substituted for a token without an exact comparison of its text with the counter name (symbols are case sensitive: a name differing only by case would be replaced too)")
							}
						}
					}
				}
			}
		}
	}
	// (3) nesting depth counter
	for _, s := range m.states {
		ps, _ := w.Paths(s)
		for _, p := range ps {
			for i := range p.Events {
				e := &p.Events[i]
				if e.Kind != "store" || e.LV.Op != "sel" || e.LV.S != "forDepth" {
					continue
				}
				l := linearOf(e.Val)
				word := ""
				for _, cd := range p.Conds {
					if cd.Atom.Op == "eq" && cd.Val && cd.Atom.A[1].Op == "str" && cd.Atom.A[0].contains(func(x *T) bool { return x.Op == "call" && x.S == "strings.ToLower" }) {
						word = cd.Atom.A[1].S
					}
				}
				if !depthRelative(l) {
					// a counter, not a flag: the new depth is the old depth plus or minus one, never an absolute value
					// (an absolute 1 on an inner 'for' loses the count at nesting depth 3 and beyond)
					d.add(false, "depth/relative", w.Pos(instrPosE(e)), "", "nesting depth set to "+e.Val.Show()+" instead of the previous depth +/- 1: blocks nested three deep are closed by the wrong 'rof'")
					continue
				}
				switch l.Const {
				case 1:
					d.add(word == "for", "depth/inc", w.Pos(instrPosE(e)), "nesting depth incremented exactly on an inner 'for'", "nesting depth is incremented on '"+word+"'")
				case -1:
					pos := hasCond(p, func(a *T, v bool) bool {
						return a.Op == "lt" && v && a.A[0].IsConstVal(0) && stripConv(a.A[1]).Op == "sel" && stripConv(a.A[1]).S == "forDepth"
					})
					d.add(word == "rof" && pos, "depth/dec", w.Pos(instrPosE(e)), "nesting depth decremented exactly on an inner 'rof' at depth > 0", "nesting depth is decremented on '"+word+"' without (rof and depth > 0)")
				default:
					d.add(false, "depth/other", w.Pos(instrPosE(e)), "", "nesting depth set to "+e.Val.Show())
				}
			}
		}
	}
	// (3b) and conversely: in a state that keeps the nesting depth, every inner 'for' is counted
	// and every inner 'rof' either closes a nested block or (at depth 0) ends the block
	for _, s := range m.states {
		ps, _ := w.Paths(s)
		tracks := false
		for _, p := range ps {
			for _, e := range p.Events {
				if e.Kind == "store" && e.LV.Op == "sel" && e.LV.S == "forDepth" && linearOf(e.Val).Const != 0 && len(linearOf(e.Val).Coef) == 1 {
					tracks = true
				}
			}
		}
		if !tracks {
			continue
		}
		for _, p := range ps {
			if p.End != "ret" {
				continue
			}
			word := ""
			for _, cd := range p.Conds {
				if cd.Atom.Op == "eq" && cd.Val && cd.Atom.A[1].Op == "str" && cd.Atom.A[0].contains(func(x *T) bool { return x.Op == "call" && x.S == "strings.ToLower" }) {
					word = cd.Atom.A[1].S
				}
			}
			delta := int64(0)
			for _, e := range p.Events {
				if e.Kind == "store" && e.LV.Op == "sel" && e.LV.S == "forDepth" {
					if !depthRelative(linearOf(e.Val)) {
						delta = 1 << 40 // absolute store: reported by depth/relative, never counts as +/- 1
					}
					delta += linearOf(e.Val).Const
				}
			}
			pos := w.Pos(s.Pos())
			if len(p.Conds) > 0 {
				pos = w.Pos(p.Conds[len(p.Conds)-1].Pos)
			}
			switch word {
			case "for":
				d.add(delta == 1, s.Name()+"/depth/every-for", pos, "every nested 'for' header raises the nesting depth", "a path that sees a nested 'for' header does not raise the nesting depth: the nested block's 'rof' then closes the outer block (e.g. a zero-count block containing a nested block)")
			case "rof":
				atZero := hasCond(p, func(a *T, v bool) bool {
					return a.Op == "lt" && !v && a.A[0].IsConstVal(0) && stripConv(a.A[1]).Op == "sel" && stripConv(a.A[1]).S == "forDepth"
				})
				d.add(delta == -1 || atZero, s.Name()+"/depth/every-rof", pos, "every 'rof' lowers the nesting depth or, at depth 0, ends the block", "a path that sees 'rof' at depth > 0 does not lower the nesting depth")
			}
		}
	}
	// (4)+(5) driver wiring in CompileWarrior
	cw := w.LibFunc("CompileWarrior")
	fe := w.LibFunc("ForExpand")
	si := w.LibFunc("ScanInput")
	np := Asm(w).NewParser
	if cw != nil && fe != nil && si != nil {
		ps, _ := w.Paths(cw)
		for _, p := range ps {
			var scan *Event
			for i := range p.Events {
				e := &p.Events[i]
				if e.Kind == "call" && e.Callee == si {
					scan = e
				}
				if e.Kind == "call" && e.Callee == fe {
					good := false
					why := "no symbol scan precedes the expansion on this path"
					if scan != nil {
						sy := stripConv(e.Args[1])
						sameScan := sy.Op == "ext" && sy.C == 1 && sy.A[0].Key() == scan.Res.Key()
						tokOf := func(t *T) string {
							var k string
							t.walk(func(x *T) bool {
								if x.Op == "call" && x.S == fnKey(Asm(w).NewBufReader) && len(x.A) == 1 {
									k = stripEpoch(x.A[0]).Key()
								}
								return k == ""
							})
							return k
						}
						sameTokens := tokOf(e.Args[0]) != "" && tokOf(e.Args[0]) == tokOf(scan.Args[0])
						good = sameScan && sameTokens
						if !sameScan {
							why = "the symbols passed to ForExpand (" + sy.Show() + ") are not the result of this pass's ScanInput: EQUs that only become visible after earlier blocks were expanded are missing when a later block's count is evaluated"
						} else if !sameTokens {
							why = "ForExpand and ScanInput of the same pass read different token streams"
						}
					}
					d.add(good, "driver/scan-per-pass", w.Pos(instrPosE(e)), "each pass expands the token stream it just scanned, with the symbols of that scan", why)
				}
				if np != nil && e.Kind == "call" && e.Callee == np {
					noFor := scan != nil && hasCond(p, func(a *T, v bool) bool {
						return a.Op == "ext" && a.C == 2 && !v && a.A[0].Key() == scan.Res.Key()
					})
					d.add(noFor, "driver/parse-after-last-for", w.Pos(instrPosE(e)), "the parser runs only when the scan saw no FOR", "the parser is constructed on a path where the last scan may still have seen a FOR")
				}
			}
		}
	}
	d.flush()
}

var _ *ssa.Function

func init() {
	register(&Rule{Name: "ALIAS.buf", Min: 2, Doc: "a slice buffer whose contents were handed to another location is never truncated and reused in place", Run: ruleAliasBuf})
}

// ruleAliasBuf: for every slice-typed struct field G whose value (or a reslice of
// it) is stored into another location (another field, a map element), every
// reset of G must install a fresh slice; `G = G[:0]` would let later appends
// overwrite the elements the other location still refers to.
func ruleAliasBuf(w *World, r *RuleResult) {
	type fieldRef struct{ typ, name string }
	loadOf := func(t *T) (fieldRef, bool) {
		t = stripConv(t)
		for t.Op == "slice" {
			t = stripConv(t.A[0])
		}
		if t.Op == "sel" && t.A[0].Op == "deref" {
			if _, ok := t.Ty.Underlying().(*types.Slice); ok {
				return fieldRef{typeName(t.A[0].A[0].Ty), t.S}, true
			}
		}
		return fieldRef{}, false
	}
	shared := map[fieldRef]string{}
	type reuse struct {
		f   fieldRef
		pos string
		fn  string
	}
	var reuses []reuse
	for _, fn := range libRoots(w) {
		paths, err := w.Paths(fn)
		if err != nil {
			continue
		}
		for _, p := range paths {
			for i := range p.Events {
				e := &p.Events[i]
				var dst *T
				var val *T
				switch e.Kind {
				case "store":
					dst, val = e.LV, e.Val
				case "mapupdate":
					dst, val = e.LV, e.Val
				default:
					continue
				}
				src, ok := loadOf(val)
				if !ok {
					continue
				}
				if e.Kind == "store" && dst.Op == "sel" && dst.A[0].Op == "deref" && dst.S == src.name && typeName(dst.A[0].A[0].Ty) == src.typ {
					// G = G[...] : truncating reuse (a reslice of itself)
					if stripConv(val).Op == "slice" {
						reuses = append(reuses, reuse{src, w.Pos(instrPosE(e)), fn.Name()})
					}
					continue
				}
				where := "a map element"
				if e.Kind == "store" {
					where = "field " + dst.S
					root := dst
					for root.Op == "sel" || root.Op == "elem" {
						root = root.A[0]
					}
					if root.Op == "new" || root.Op == "makeslice" {
						continue // a temporary literal (varargs), not a lasting location
					}
				}
				shared[src] = where + " in " + fn.Name()
			}
		}
	}
	var keys []fieldRef
	for k := range shared {
		keys = append(keys, k)
	}
	sort.Slice(keys, func(i, j int) bool { return keys[i].typ+keys[i].name < keys[j].typ+keys[j].name })
	for _, k := range keys {
		bad := false
		for _, ru := range reuses {
			if ru.f == k {
				bad = true
				r.bad(strings.TrimPrefix(k.typ, "*")+"."+k.name+"/reuse-in-"+ru.fn, ru.pos, fmt.Sprintf("buffer %s.%s is truncated and reused in place in %s, but its contents were handed to %s: the next append overwrites what that location still refers to", strings.TrimPrefix(k.typ, "*"), k.name, ru.fn, shared[k]))
			}
		}
		if !bad {
			r.ok(strings.TrimPrefix(k.typ, "*")+"."+k.name, "-", "handed to "+shared[k]+"; every reset installs a fresh slice")
		}
	}
}

// mangleOf: t builds a name out of two or more non-constant strings, one of
// them a string field of the machine (the block's counter label) — by
// Sprintf or by concatenation.  Both forms are reduced to a format with %s
// holes and the list of arguments, so that sites written either way compare.
// depthRelative: the stored value is (the nesting depth field) + constant, coefficient exactly one.
func depthRelative(l *Lin) bool {
	if len(l.Coef) != 1 {
		return false
	}
	for k, c := range l.Coef {
		a := stripConv(l.Atom[k])
		if c != 1 || a == nil || a.Op != "sel" || a.S != "forDepth" {
			return false
		}
	}
	return true
}

func mangleOf(p *Path, t *T) (format string, args []*T, ok bool) {
	t = stripConv(t)
	switch {
	case t.Op == "call" && t.S == "fmt.Sprintf" && len(t.A) == 2 && t.A[0].Op == "str":
		format = strings.NewReplacer("%d", "%s", "%v", "%s").Replace(t.A[0].S)
		els := elementsOf(p, t.A[1])
		for k := 0; k < len(els); k++ {
			x := els[fmt.Sprintf("[%d]", k)]
			if x == nil {
				return "", nil, false
			}
			args = append(args, x)
		}
	case t.Op == "cat":
		var flat func(x *T)
		flat = func(x *T) {
			x = stripConv(x)
			switch {
			case x.Op == "cat":
				flat(x.A[0])
				flat(x.A[1])
			case x.Op == "str":
				format += x.S
			default:
				format += "%s"
				args = append(args, x)
			}
		}
		flat(t)
	default:
		return "", nil, false
	}
	if len(args) < 2 {
		return "", nil, false
	}
	field := false
	for _, a := range args {
		a = stripConv(a)
		if a.Op == "iface" {
			a = stripConv(a.A[0])
		}
		if a.Op == "sel" && a.A[0].Op == "deref" && a.A[0].A[0].Op == "p" {
			field = true
		}
	}
	return format, args, field
}

func isMangled(p *Path, t *T) bool {
	_, _, ok := mangleOf(p, t)
	return ok
}
