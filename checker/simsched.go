package main

// Scheduler, queue, API-guard and reset rules (C02/C04/C13/C15).

import (
	"fmt"
	"go/types"
	"sort"
	"strings"

	"golang.org/x/tools/go/ssa"
)

func init() {
	register(&Rule{Name: "QUEUE.cap", Min: 3, Doc: "Push stores only when length < size; Pop reads only when length > 0", Run: ruleQueueCap})
	register(&Rule{Name: "MOD.queue", Min: 6, Doc: "queue cursors are 0 or (_ % size); buffer is make(_, size); size write-once", Run: ruleModQueue})
	register(&Rule{Name: "CYCLE.cap", Min: 2, Doc: "the cycle counter is only reset to 0 or incremented under cycle < max", Run: ruleCycleCap})
	register(&Rule{Name: "PAIR.alive", Min: 4, Doc: "aliveness changes are paired with the living counter (and a fresh queue on revival)", Run: rulePairAlive})
	register(&Rule{Name: "DEATH.report", Min: 1, Doc: "a warrior's death is reported where it happens", Run: ruleDeathReport})
	register(&Rule{Name: "SCHED.loop", Min: 6, Doc: "one pop and one execution per living warrior, in index order, on the same warrior", Run: ruleSchedLoop})
	register(&Rule{Name: "RUN.only", Min: 2, Doc: "Run changes simulator state only through RunCycle and reports Alive() per warrior", Run: ruleRunOnly})
	register(&Rule{Name: "RUN.progress", Min: 2, Doc: "every RunCycle return that makes no progress makes Run's loop exit", Run: ruleRunProgress})
	register(&Rule{Name: "API.index", Min: 4, Doc: "every index into the warrior list is bounded by 0 <= i < count", Run: ruleAPIIndex})
	register(&Rule{Name: "API.nil", Min: 4, Doc: "the queue pointer is only dereferenced when the warrior has been spawned", Run: ruleAPINil})
	register(&Rule{Name: "RESET.cover", Min: 3, Doc: "Reset (or re-spawn) re-initialises every field a battle can change", Run: ruleResetCover})
	register(&Rule{Name: "MOD.cfg", Min: 5, Doc: "configuration fields used as divisor/modulus/allocation are validated before use", Run: ruleModCfgReal})
}

// selOf: t == (*X).f ; returns X
func selOf(t *T, f string) (*T, bool) {
	t = stripConv(t)
	if t != nil && t.Op == "sel" && t.S == f && t.A[0].Op == "deref" {
		return t.A[0].A[0], true
	}
	return nil, false
}

func hasCond(p *Path, pred func(a *T, v bool) bool) bool {
	for _, c := range p.Conds {
		if pred(c.Atom, c.Val) {
			return true
		}
	}
	return false
}

// isCap: t is the capacity of the queue: its size field (when it keeps one)
// or the length of its write-once buffer.
func (q queueAnchors) isCap(t *T) bool {
	t = stripConv(t)
	if q.size != "" {
		if _, ok := selOf(t, q.size); ok {
			return true
		}
	}
	if t.Op == "len" {
		_, ok := selOf(t.A[0], q.buf)
		return ok
	}
	return false
}

// inRing: is v in [0, capacity) on path p of fn, given that the cursors are
// (the invariant MOD.queue establishes by induction)?  Accepted: 0, _ % size,
// a cursor, x+1 under x+1 != size (or x+1 < size) with x in the ring, and a
// loop variable that starts in the ring and whose every step stays in it.
func (q queueAnchors) inRing(w *World, fn *ssa.Function, p *Path, v *T, assume map[string]bool) bool {
	v = stripConv(v)
	if v.IsConstVal(0) || assume[v.Key()] {
		return true
	}
	if v.Op == "rem" && q.isCap(v.A[1]) {
		return true
	}
	for _, cf := range q.cursors {
		if _, ok := selOf(v, cf); ok {
			return true
		}
	}
	if v.Op == "add" {
		l := linearOf(v)
		if l.Const == 1 && len(l.Coef) == 1 {
			for k, a := range l.Atom {
				if l.Coef[k] != 1 || !q.inRing(w, fn, p, a, assume) {
					return false
				}
			}
			var x *T
			for _, a := range l.Atom {
				x = a
			}
			return hasCond(p, func(a *T, val bool) bool {
				return (a.Op == "eq" && !val && q.wrapTest(a, x)) || (a.Op == "lt" && val && q.wrapTest(a, x))
			})
		}
		return false
	}
	if v.Op == "loopvar" && fn != nil && int(v.C) < len(fn.Blocks) {
		phiIdx, n := -1, 0
		for _, in := range fn.Blocks[int(v.C)].Instrs {
			if ph, isPhi := in.(*ssa.Phi); isPhi {
				if ph.Comment == v.S {
					phiIdx = n
				}
				n++
			}
		}
		if phiIdx < 0 {
			return false
		}
		var init *T
		for i := range p.Events {
			e := &p.Events[i]
			if e.Kind == "enterloop" && e.Res.C == v.C && phiIdx < len(e.Args) {
				init = e.Args[phiIdx]
			}
		}
		if init == nil || !q.inRing(w, fn, p, init, assume) {
			return false
		}
		paths, err := w.Paths(fn)
		if err != nil {
			return false
		}
		as := map[string]bool{v.Key(): true}
		for k := range assume {
			as[k] = true
		}
		for _, bp := range paths {
			if bp.End != "backedge" {
				continue
			}
			be := bp.Events[len(bp.Events)-1]
			if be.Res.C != v.C {
				continue
			}
			if phiIdx >= len(be.Args) || !q.inRing(w, fn, bp, be.Args[phiIdx], as) {
				return false
			}
		}
		return true
	}
	return false
}

// wrapTest: the comparison a (eq or lt) is between x + 1 and the capacity, in
// any arrangement: x+1 == size, x == size-1, x+1 < size, x < size-1.
func (q queueAnchors) wrapTest(a *T, x *T) bool {
	if (a.Op != "eq" && a.Op != "lt") || len(a.A) != 2 {
		return false
	}
	l := linearOf(&T{Op: "sub", A: []*T{a.A[0], a.A[1]}})
	if len(l.Coef) != 2 || (l.Const != 1 && l.Const != -1) {
		return false
	}
	sg := l.Const
	if a.Op == "lt" && sg != 1 {
		return false
	}
	okX, okCap := false, false
	for k, at := range l.Atom {
		switch {
		case sameTerm(at, x) && l.Coef[k] == sg:
			okX = true
		case q.isCap(at) && l.Coef[k] == -sg:
			okCap = true
		}
	}
	return okX && okCap
}

// ringSucc: on path p, is v the ring successor of x — (x+1) % size, or the
// branch form: 0 where x+1 == size, x+1 where it is not?
func (q queueAnchors) ringSucc(p *Path, x, v *T) bool {
	x, v = stripConv(x), stripConv(v)
	plusOne := func(t *T) bool {
		l := linearOf(t)
		if l.Const != 1 || len(l.Coef) != 1 {
			return false
		}
		for k, a := range l.Atom {
			if l.Coef[k] != 1 || !sameTerm(stripConv(a), x) {
				return false
			}
		}
		return true
	}
	if v.Op == "rem" && q.isCap(v.A[1]) {
		return plusOne(v.A[0])
	}
	wraps := func(want bool) bool {
		return hasCond(p, func(a *T, val bool) bool {
			return (a.Op == "eq" && val == want && q.wrapTest(a, x)) || (a.Op == "lt" && val == !want && q.wrapTest(a, x))
		})
	}
	if v.IsConstVal(0) {
		return wraps(true)
	}
	return plusOne(v) && wraps(false)
}

type queueAnchors struct {
	buf, size, length string
	cursors           []string
	ctor              *ssa.Function
	err               string
}

var queueMemo *queueAnchors

func resolveQueue(w *World, c *simCtx) queueAnchors {
	if queueMemo == nil {
		q := resolveQueue0(w, c)
		queueMemo = &q
		w.MarkBoundary("queue constructor", q.ctor)
	}
	return *queueMemo
}

// freshQueue: the value is a queue that was just created (a call of the
// queue constructor, or an allocation of the queue type in place).
func (c *simCtx) freshQueue(w *World, v *T) bool {
	v = stripConv(v)
	if v.Op == "call" {
		q := resolveQueue(w, c)
		return q.ctor != nil && v.S == fnKey(q.ctor)
	}
	return v.Op == "new" && c.a.QueueT != nil && typeName(v.Ty) == "*"+c.a.QueueT.Obj().Name()
}

func resolveQueue0(w *World, c *simCtx) queueAnchors {
	q := queueAnchors{}
	if c.a.QueueT == nil {
		q.err = "queue type unresolved"
		return q
	}
	q.length = retField(w, c.a.QLen)
	st := c.a.QueueT.Underlying().(*types.Struct)
	for i := 0; i < st.NumFields(); i++ {
		if _, ok := st.Field(i).Type().Underlying().(*types.Slice); ok {
			q.buf = st.Field(i).Name()
		}
	}
	// constructor: function storing a makeslice into buf of a fresh queue
	for _, fn := range libFuncs(w) {
		if !allocsType(fn, c.a.QueueT) {
			continue
		}
		paths, err := w.Paths(fn)
		if err != nil {
			continue
		}
		for _, p := range paths {
			var mk *T
			for _, e := range p.Events {
				if e.Kind == "store" && e.LV.Op == "sel" && e.LV.A[0].Op == "new" && typeName(e.LV.A[0].Ty) == "*"+c.a.QueueT.Obj().Name() && e.Instr.Parent() == fn {
					if e.LV.S == q.buf && e.Val.Op == "makeslice" {
						mk = e.Val
						q.ctor = fn
					}
				}
			}
			if mk != nil {
				for _, e := range p.Events {
					if e.Kind == "store" && e.LV.Op == "sel" && e.LV.A[0].Op == "new" && e.LV.S != q.buf && e.Val.Show() == mk.A[0].Show() {
						q.size = e.LV.S
					}
				}
			}
		}
	}
	if q.buf == "" || q.length == "" || q.ctor == nil {
		q.err = fmt.Sprintf("queue anchors unresolved (buffer=%q size=%q length=%q)", q.buf, q.size, q.length)
	}
	for i := 0; i < st.NumFields(); i++ {
		n := st.Field(i).Name()
		if n != q.buf && n != q.size && n != q.length {
			q.cursors = append(q.cursors, n)
		}
	}
	return q
}

func queueMethods(w *World, c *simCtx) []*ssa.Function {
	var out []*ssa.Function
	for _, fn := range libFuncs(w) {
		if fn.Signature.Recv() != nil {
			if p, ok := fn.Signature.Recv().Type().(*types.Pointer); ok && types.Identical(p.Elem(), c.a.QueueT) {
				out = append(out, fn)
			}
		}
	}
	return out
}

func ruleQueueCap(w *World, r *RuleResult) {
	c := newSimCtx(w)
	q := resolveQueue(w, c)
	if q.err != "" {
		r.undecided("anchors", "-", q.err)
		return
	}
	d := newDedup(r)
	for _, fn := range queueMethods(w, c) {
		paths, err := w.Paths(fn)
		if err != nil {
			r.undecided(fn.Name(), w.Pos(fn.Pos()), err.Error())
			continue
		}
		for _, p := range paths {
			ltSize := hasCond(p, func(a *T, v bool) bool {
				// length < capacity
				if a.Op == "lt" && v {
					_, o1 := selOf(a.A[0], q.length)
					return o1 && q.isCap(a.A[1])
				}
				return false
			})
			gtZero := hasCond(p, func(a *T, v bool) bool {
				if a.Op == "eq" && !v && a.A[1].IsConstVal(0) {
					_, o := selOf(a.A[0], q.length)
					return o
				}
				if a.Op == "lt" && v && a.A[0].IsConstVal(0) {
					_, o := selOf(a.A[1], q.length)
					return o
				}
				return false
			})
			for i := range p.Events {
				e := &p.Events[i]
				if e.Kind != "store" {
					continue
				}
				if e.LV.Op == "elem" {
					if _, ok := selOf(e.LV.A[0], q.buf); ok {
						d.add(ltSize, fn.Name()+"/buffer-store", c.posOf(e), "guarded by length < size", "element stored into the queue buffer without a dominating length < size test: the new task would overwrite the oldest one or exceed the process limit")
					}
				}
				if _, ok := selOf(e.LV, q.length); ok {
					l := linearOf(e.Val)
					switch {
					case l.Const == 1 && len(l.Coef) == 1:
						d.add(ltSize, fn.Name()+"/length++", c.posOf(e), "guarded by length < size", "queue length incremented without a dominating length < size test (a warrior could hold more tasks than the process limit)")
					case l.Const == -1 && len(l.Coef) == 1:
						d.add(gtZero, fn.Name()+"/length--", c.posOf(e), "guarded by length > 0", "queue length decremented without a dominating length > 0 test (unsigned underflow)")
					default:
						d.add(false, fn.Name()+"/length=", c.posOf(e), "", "queue length set to "+e.Val.Show())
					}
				}
			}
		}
	}
	d.flush()
}

func ruleModQueue(w *World, r *RuleResult) {
	c := newSimCtx(w)
	q := resolveQueue(w, c)
	if q.err != "" {
		r.undecided("anchors", "-", q.err)
		return
	}
	qn := c.a.QueueT.Obj().Name()
	d := newDedup(r)
	cursor := func(t *T) bool {
		for _, cf := range q.cursors {
			if _, ok := selOf(t, cf); ok {
				return true
			}
		}
		return false
	}
	if q.size != "" {
		d.add(!w.unstable[qn+"."+q.size], "size-write-once", w.Pos(q.ctor.Pos()), "size stored only in the constructor", "queue capacity field is modified after construction")
	}
	d.add(!w.unstable[qn+"."+q.buf], "buffer-write-once", w.Pos(q.ctor.Pos()), "buffer allocated only in the constructor with make(_, size)", "queue buffer is replaced after construction")
	for _, fn := range libRoots(w) {
		paths, err := w.Paths(fn)
		if err != nil {
			continue
		}
		for _, p := range paths {
			for i := range p.Events {
				e := &p.Events[i]
				if e.LV == nil {
					continue
				}
				if e.Kind == "store" && cursor(e.LV) {
					v := stripConv(e.Val)
					good := q.inRing(w, fn, p, v, nil)
					d.add(good, fn.Name()+"/cursor="+e.LV.S, c.posOf(e), "0, _ % size, or cursor+1 under cursor+1 != size", "queue cursor "+e.LV.S+" set to "+v.Show()+", which is not reduced modulo the capacity")
				}
				if e.LV.Op == "elem" {
					if _, ok := selOf(e.LV.A[0], q.buf); ok {
						idx := stripConv(e.LV.A[1])
						good := q.inRing(w, fn, p, idx, nil)
						d.add(good, fn.Name()+"/buffer["+e.Kind+"]", c.posOf(e), "index is a cursor or _ % size", "queue buffer indexed by "+idx.Show())
					}
				}
			}
		}
	}
	// capacity >= 1: every constructor call passes a validated field
	for _, callRoot := range w.CallerRoots(q.ctor) {
		paths, _ := w.Paths(callRoot)
		for _, p := range paths {
			for i := range p.Events {
				e := &p.Events[i]
				if e.Kind == "call" && e.Callee == q.ctor {
					good := c.isRecvField(e.Args[0], c.a.MaxProcs)
					d.add(good, callRoot.Name()+"/capacity", c.posOf(e), "capacity is the validated process limit (>= 1)", "queue created with capacity "+e.Args[0].Show()+", not the validated process limit")
				}
			}
		}
	}
	d.flush()
}

func ruleCycleCap(w *World, r *RuleResult) {
	c := newSimCtx(w)
	if c.a.CycleField == "" || c.a.MaxCycles == "" {
		r.undecided("anchors", "-", "cycle counter / limit fields unresolved")
		return
	}
	d := newDedup(r)
	for _, fn := range libRoots(w) {
		paths, err := w.Paths(fn)
		if err != nil {
			continue
		}
		for _, p := range paths {
			for i := range p.Events {
				e := &p.Events[i]
				if e.Kind != "store" || !c.isRecvField(e.LV, c.a.CycleField) {
					continue
				}
				v := stripConv(e.Val)
				if v.IsConstVal(0) {
					d.add(true, fn.Name()+"/cycle=0", c.posOf(e), "reset to 0", "")
					continue
				}
				l := linearOf(v)
				inc := l.Const == 1 && len(l.Coef) == 1
				for _, a := range l.Atom {
					inc = inc && c.isRecvField(a, c.a.CycleField)
				}
				guard := hasCond(p, func(a *T, val bool) bool {
					if a.Op == "le" && !val {
						return c.isRecvField(a.A[0], c.a.MaxCycles) && c.isRecvField(a.A[1], c.a.CycleField)
					}
					if a.Op == "lt" && val {
						return c.isRecvField(a.A[0], c.a.CycleField) && c.isRecvField(a.A[1], c.a.MaxCycles)
					}
					return false
				})
				d.add(inc && guard, fn.Name()+"/cycle++", c.posOf(e), "incremented by one under cycle < max", "cycle counter set to "+v.Show()+" without a dominating cycle < max test: the completed-cycle count can exceed the limit")
			}
		}
	}
	d.flush()
}

// stateStores enumerates stores to a warrior's state field.
type stateStore struct {
	fn  *ssa.Function
	p   *Path
	i   int
	e   *Event
	war *T // pointer term of the warrior
	val int64
}

func stateStores(w *World, c *simCtx) []stateStore {
	var out []stateStore
	for _, fn := range libRoots(w) {
		paths, err := w.Paths(fn)
		if err != nil {
			continue
		}
		for _, p := range paths {
			for i := range p.Events {
				e := &p.Events[i]
				if e.Kind != "store" {
					continue
				}
				if x, ok := selOf(e.LV, c.a.StateField); ok && e.Val.IsConst() && typeName(e.LV.Ty) == "WarriorState" {
					out = append(out, stateStore{fn, p, i, e, x, e.Val.C})
				}
			}
		}
	}
	return out
}

func (c *simCtx) livingDelta(p *Path) (deltas []int64, zero bool) {
	for i := range p.Events {
		e := &p.Events[i]
		if e.Kind == "store" && c.isRecvField(e.LV, c.a.LivingField) {
			if e.Val.IsConstVal(0) {
				zero = true
				continue
			}
			l := linearOf(e.Val)
			if len(l.Coef) == 1 {
				deltas = append(deltas, l.Const)
			} else {
				deltas = append(deltas, 99)
			}
		}
	}
	return
}

func rulePairAlive(w *World, r *RuleResult) {
	c := newSimCtx(w)
	if len(c.a.Err) > 0 {
		r.undecided("anchors", "-", strings.Join(c.a.Err, "; "))
		return
	}
	ws := w.EnumValues("WarriorState")
	name := func(v int64) string { return ws[v] }
	d := newDedup(r)
	for _, s := range stateStores(w, c) {
		deltas, zero := c.livingDelta(s.p)
		key := fmt.Sprintf("%s/state=%s", s.fn.Name(), name(s.val))
		switch name(s.val) {
		case "WarriorAlive":
			notAlive := hasCond(s.p, func(a *T, v bool) bool {
				if a.Op == "eq" && !v && a.A[1].IsConst() && name(a.A[1].C) == "WarriorAlive" {
					x, ok := selOf(a.A[0], c.a.StateField)
					return ok && x.Show() == s.war.Show()
				}
				return false
			})
			fresh := false
			for i := 0; i < s.i; i++ {
				e := &s.p.Events[i]
				if e.Kind == "store" {
					if x, ok := selOf(e.LV, c.a.QField); ok && x.Show() == s.war.Show() && c.freshQueue(w, e.Val) {
						fresh = true
					}
				}
			}
			d.add(len(deltas) == 1 && deltas[0] == 1, key+"/living++", c.posOf(s.e), "paired with living count + 1", fmt.Sprintf("warrior revived but living count changes by %v on this path", deltas))
			d.add(notAlive, key+"/not-already-alive", c.posOf(s.e), "only a warrior that is not alive is revived", "warrior set alive without a dominating 'state != alive' test: a running warrior would be counted twice")
			d.add(fresh, key+"/fresh-queue", c.posOf(s.e), "a fresh queue is installed before the warrior becomes alive", "warrior set alive without installing a fresh process queue on this path (stale tasks survive, or nil queue)")
		case "WarriorDead":
			// reviewed exception: zombie reap, control dependent on Pop failing
			zombie := hasCond(s.p, c.popFailed)
			if zombie {
				d.add(true, key+"/zombie-reap", c.posOf(s.e), "reviewed exception: unreachable reap of an alive warrior with an empty queue (alive => non-empty queue by PAIR.alive + death test after every execution)", "")
				continue
			}
			d.add(len(deltas) == 1 && deltas[0] == -1, key+"/living--", c.posOf(s.e), "paired with living count - 1", fmt.Sprintf("warrior marked dead but living count changes by %v on this path", deltas))
			empty := hasCond(s.p, func(a *T, v bool) bool {
				isLen := func(t *T) bool {
					t = stripConv(t)
					return t.Op == "call" && c.a.QLen != nil && t.S == fnKey(c.a.QLen)
				}
				switch {
				case a.Op == "eq" && v && a.A[1].IsConstVal(0) && isLen(a.A[0]):
					return true
				case a.Op == "lt" && !v && a.A[0].IsConstVal(0) && isLen(a.A[1]): // !(0 < len)
					return true
				case a.Op == "lt" && v && isLen(a.A[0]) && a.A[1].IsConstVal(1): // len < 1
					return true
				}
				return false
			})
			d.add(empty, key+"/queue-empty", c.posOf(s.e), "death exactly when the queue is empty after execution", "warrior marked dead on a path that does not establish an empty process queue")
		case "WarriorAdded":
			// every returning path of the function zeroes the living counter
			all := true
			paths, _ := w.Paths(s.fn)
			for _, p := range paths {
				if p.End == "ret" {
					if _, z := c.livingDelta(p); !z {
						all = false
					}
				}
			}
			_ = zero
			d.add(all, key+"/living=0", c.posOf(s.e), "living count zeroed on every return of the resetting function", "warrior states reset but the living count is not zeroed on every return path")
		}
	}
	// converse: every living-count change is next to a state change
	for _, fn := range libRoots(w) {
		paths, _ := w.Paths(fn)
		for _, p := range paths {
			deltas, _ := c.livingDelta(p)
			if len(deltas) == 0 {
				continue
			}
			n := 0
			for _, s := range stateStores(w, c) {
				if s.p == p {
					n++
				}
			}
			d.add(n == len(deltas), fn.Name()+"/living-change", w.Pos(fn.Pos()), "each living-count change accompanies one state change", fmt.Sprintf("living count changes %d times but %d warrior states change on the same path", len(deltas), n))
		}
	}
	d.flush()
}

func init() {
	register(&Rule{Name: "DEATH.exact", Min: 1, Doc: "after executing a task a warrior stays alive only under a test that its queue is not empty", Run: ruleDeathExact})
}

// ruleDeathExact: "a warrior dies exactly when its queue becomes empty".
// DEATH.report and PAIR.alive look at the paths that mark a warrior dead; this
// is the other half: a path that has executed one of the warrior's tasks and
// goes on without marking it dead must have looked at the queue after the
// execution and found it non-empty — whatever else the executor reports.
func ruleDeathExact(w *World, r *RuleResult) {
	c := newSimCtx(w)
	if len(c.a.Err) > 0 || c.a.Exec == nil || c.a.QueueT == nil {
		r.undecided("anchors", "-", strings.Join(c.a.Err, "; "))
		return
	}
	ws := w.EnumValues("WarriorState")
	qn := "*" + c.a.QueueT.Obj().Name()
	q := resolveQueue(w, c)
	d := newDedup(r)
	n := 0
	for _, fn := range w.CallerRoots(c.a.Exec) {
		paths, err := w.Paths(fn)
		if err != nil {
			continue
		}
		for _, p := range paths {
			if p.End != "backedge" && p.End != "ret" {
				continue
			}
			ex := -1
			for i := range p.Events {
				if p.Events[i].Kind == "call" && p.Events[i].Callee == c.a.Exec {
					ex = i
				}
			}
			if ex < 0 {
				continue
			}
			n++
			dead := false
			var lens []*T
			for i := ex + 1; i < len(p.Events); i++ {
				e := &p.Events[i]
				if e.Kind == "store" && e.LV.Op == "sel" && e.LV.S == c.a.StateField && e.Val.IsConst() && ws[e.Val.C] == "WarriorDead" {
					dead = true
				}
				// a look at the queue: its length method, or the length field itself
				if e.Kind == "call" && e.Callee != nil && e.Res != nil && e.Callee.Signature.Recv() != nil && typeName(e.Callee.Signature.Recv().Type()) == qn && w.isPure(e.Callee) && isInteger(e.Res.Ty) {
					lens = append(lens, e.Res)
				}
				if e.Kind == "load" && q.err == "" {
					if recv, ok := selOf(e.LV, q.length); ok && typeName(recv.Ty) == qn {
						lens = append(lens, e.LV)
					}
				}
			}
			if dead {
				continue
			}
			nonEmpty := hasCond(p, func(a *T, v bool) bool {
				for _, l := range lens {
					lk := l.Key()
					is := func(t *T) bool { return stripConv(t).Key() == lk }
					switch {
					case a.Op == "eq" && !v && ((is(a.A[0]) && a.A[1].IsConstVal(0)) || (is(a.A[1]) && a.A[0].IsConstVal(0))):
						return true
					case a.Op == "lt" && v && a.A[0].IsConstVal(0) && is(a.A[1]):
						return true
					case a.Op == "lt" && !v && is(a.A[0]) && a.A[1].IsConstVal(1):
						return true
					}
				}
				return false
			})
			d.add(nonEmpty, fn.Name()+"/alive-needs-tasks", c.posOf(&p.Events[ex]), "the warrior stays alive after an execution only where its queue was found non-empty", "after executing a task the warrior is kept alive on a path that has not found its queue non-empty: a warrior whose last task ended (DAT, division by zero) without a new one being queued is not marked dead in that cycle")
		}
	}
	if n == 0 {
		r.undecided("sites", "-", "no path executes a task")
	}
	d.flush()
}

func ruleDeathReport(w *World, r *RuleResult) {
	c := newSimCtx(w)
	if len(c.a.Err) > 0 {
		r.undecided("anchors", "-", strings.Join(c.a.Err, "; "))
		return
	}
	ws := w.EnumValues("WarriorState")
	d := newDedup(r)
	for _, s := range stateStores(w, c) {
		if ws[s.val] != "WarriorDead" {
			continue
		}
		zombie := hasCond(s.p, c.popFailed)
		if zombie {
			continue
		}
		found := false
		for i := range s.p.Events {
			rep, ok := c.reportOf(&s.p.Events[i])
			if ok && rep.TypeOK && rep.Type == c.rt["WarriorTerminate"] {
				// index must be the index used to reach this warrior
				wk := stripEpoch(s.war)
				wi := stripConv(rep.WIdx)
				if wk.Op == "elem" && wk.A[1].Show() == wi.Show() {
					found = true
				}
				if x, ok := selOf(wi, c.indexField()); ok && x.Show() == s.war.Show() {
					found = true
				}
			}
		}
		d.add(found, s.fn.Name()+"/terminate-report", c.posOf(s.e), "warrior-terminate report on the same path, same warrior", "warrior marked dead without a warrior-terminate report for it on the same path")
	}
	// converse: every terminate report sits on a path that marks that warrior dead
	for _, fn := range libRoots(w) {
		paths, _ := w.Paths(fn)
		for _, p := range paths {
			for i := range p.Events {
				rep, ok := c.reportOf(&p.Events[i])
				if !ok || !rep.TypeOK || rep.Type != c.rt["WarriorTerminate"] {
					continue
				}
				dead := false
				for _, s := range stateStores(w, c) {
					if s.p == p && ws[s.val] == "WarriorDead" {
						dead = true
					}
				}
				d.add(dead, fn.Name()+"/terminate-implies-dead", c.posOf(&p.Events[i]), "report accompanied by the state change", "warrior-terminate reported on a path that does not mark the warrior dead")
			}
		}
	}
	d.flush()
}

func ruleSchedLoop(w *World, r *RuleResult) {
	c := newSimCtx(w)
	if len(c.a.Err) > 0 || c.a.RunCycle == nil {
		r.undecided("anchors", "-", strings.Join(c.a.Err, "; "))
		return
	}
	fn := c.a.RunCycle
	paths, err := w.Paths(fn)
	if err != nil {
		r.undecided(fn.Name(), w.Pos(fn.Pos()), err.Error())
		return
	}
	d := newDedup(r)
	ws := w.EnumValues("WarriorState")
	// cursor: the field the loop starts from; all its stores are 0
	cursor := ""
	for _, p := range paths {
		for _, e := range p.Events {
			if e.Kind == "enterloop" && len(e.Args) >= 1 {
				if x := stripConv(e.Args[0]); x.Op == "sel" && c.isRecvField(x, x.S) {
					cursor = x.S
				} else if !x.IsConstVal(0) {
					d.add(false, "loop-start", w.Pos(fn.Pos()), "", "the warrior loop starts at "+x.Show()+", neither 0 nor the cursor field")
				}
			}
		}
	}
	if cursor != "" {
		for _, f2 := range libRoots(w) {
			ps, _ := w.Paths(f2)
			for _, p := range ps {
				for i := range p.Events {
					e := &p.Events[i]
					if e.Kind == "store" && c.isRecvField(e.LV, cursor) {
						d.add(e.Val.IsConstVal(0), f2.Name()+"/cursor=", c.posOf(e), "cursor only ever 0 (every cycle starts with the first warrior)", "warrior cursor set to "+e.Val.Show())
					}
				}
			}
		}
	}
	for _, p := range paths {
		var lv *T
		for _, e := range p.Events {
			if e.Kind == "backedge" && len(e.Args) >= 1 {
				l := linearOf(e.Args[0])
				good := l.Const == 1 && len(l.Coef) == 1
				for _, a := range l.Atom {
					good = good && a.Op == "loopvar"
					lv = a
				}
				d.add(good, "loop-step", w.Pos(fn.Pos()), "induction variable advances by one", "warrior loop continues with "+e.Args[0].Show()+" instead of i+1 (a warrior would be skipped or run twice)")
			}
		}
		_ = lv
		// per iteration under state == Alive
		var pops, execs []int
		var popEv, execEv *Event
		for i := range p.Events {
			e := &p.Events[i]
			if e.Kind == "call" && c.isPopFn(e.Callee) {
				pops = append(pops, i)
				popEv = e
			}
			if e.Kind == "call" && e.Callee == c.a.Exec {
				execs = append(execs, i)
				execEv = e
			}
		}
		if len(pops) == 0 && len(execs) == 0 {
			continue
		}
		alive := hasCond(p, func(a *T, v bool) bool {
			if a.Op == "eq" && v && a.A[1].IsConst() && ws[a.A[1].C] == "WarriorAlive" {
				_, ok := selOf(a.A[0], c.a.StateField)
				return ok
			}
			return false
		})
		d.add(alive, "iteration/alive-guard", w.Pos(fn.Pos()), "tasks are taken only from warriors in state alive", "a task is popped or executed for a warrior without a state == alive test")
		d.add(len(pops) == 1, "iteration/one-pop", w.Pos(fn.Pos()), "exactly one task popped per living warrior per cycle", fmt.Sprintf("%d pops on one iteration of the warrior loop", len(pops)))
		if len(execs) > 0 {
			good := len(execs) == 1 && len(pops) == 1 && pops[0] < execs[0]
			pcOK, warOK := false, false
			if good {
				pc := stripConv(execEv.Args[1])
				pcOK = pc.Op == "ext" && pc.C == 1 && c.isPopCall(pc.A[0])
				// same warrior: queue popped belongs to warriors[i], exec gets warriors[i]
				qx, ok := selOf(popEv.Args[0], c.a.QField)
				wr := stripEpoch(execEv.Args[2])
				if ok && stripEpoch(qx).Key() == wr.Key() && wr.Op == "elem" && wr.A[1].Op == "loopvar" {
					warOK = true
				}
			}
			d.add(good, "iteration/pop-before-exec", c.posOf(execEv), "the task is removed from the queue before it runs (so it does not occupy a slot during its own SPL)", "the executed task is not popped before execution on this iteration")
			d.add(pcOK, "iteration/exec-popped-pc", c.posOf(execEv), "the executed PC is the popped one", "the executor is started at "+execEv.Args[1].Show()+", not at the value just popped from the front of the queue")
			d.add(warOK, "iteration/same-warrior", c.posOf(execEv), "pop and execution use the loop's warrior", "the queue popped and the warrior executed are not both warriors[i] of the loop index")
		}
	}
	// early return only after a death, with more than one warrior and one survivor
	earlyFound := false
	for _, p := range paths {
		if p.End != "ret" {
			continue
		}
		inLoop := false
		for _, e := range p.Events {
			if e.Kind == "enterloop" {
				inLoop = true
			}
		}
		cycleInc := false
		for _, e := range p.Events {
			if e.Kind == "store" && c.isRecvField(e.LV, c.a.CycleField) {
				cycleInc = true
			}
		}
		if !inLoop || cycleInc {
			continue
		}
		multi := hasCond(p, func(a *T, v bool) bool {
			return a.Op == "lt" && v && a.A[0].IsConstVal(1) && c.isCount(a.A[1])
		})
		// the living count as it stands at the return: its value on entry plus delta
		delta := int64(0)
		for _, e := range p.Events {
			if e.Kind == "store" && c.isRecvField(e.LV, c.a.LivingField) {
				delta = linearOf(e.Val).Const
			}
		}
		one := hasCond(p, func(a *T, v bool) bool {
			if a.Op == "eq" && v && a.A[1].IsConst() {
				l := linearOf(a.A[0])
				if len(l.Atom) != 1 {
					return false
				}
				for k, at := range l.Atom {
					if c.isRecvField(at, c.a.LivingField) && l.Coef[k] == 1 {
						// entry value == k - const, so the current value is k - const + delta
						return a.A[1].C-l.Const+delta == 1
					}
				}
			}
			return false
		})
		died := false
		for _, s := range stateStores(w, c) {
			if s.p == p && ws[s.val] == "WarriorDead" {
				died = true
			}
		}
		d.add(multi && one && died, "early-return", w.Pos(fn.Pos()), "cycle abandoned only when a death leaves exactly one survivor among several warriors", "the cycle is cut short on a path without (warrior count > 1, a death, living count == 1)")
		earlyFound = true
	}
	d.add(earlyFound, "early-return/exists", w.Pos(fn.Pos()), "the cycle ends as soon as a death leaves a single survivor among several warriors", "no path ends the cycle when a death leaves a single survivor: the survivor (or later warriors) still execute in a battle that is already decided, so a round can end with nobody alive")
	d.flush()
}

func init() {
	register(&Rule{Name: "RUN.result", Min: 2, Doc: "Run returns one flag per added warrior; nil only when no warrior was added", Run: ruleRunResult})
}

// ruleRunResult: whatever the state of the battle (never started, finished,
// just reset), Run answers with one aliveness flag per added warrior; the
// only nil answer is for a simulator without warriors.
func ruleRunResult(w *World, r *RuleResult) {
	c := newSimCtx(w)
	if c.a.Run == nil || c.a.WarriorsField == "" {
		r.undecided("anchors", "-", "Run / warrior list unresolved")
		return
	}
	fn := c.a.Run
	paths, err := w.Paths(fn)
	if err != nil {
		r.undecided(fn.Name(), w.Pos(fn.Pos()), err.Error())
		return
	}
	isCount := func(t *T) bool {
		t = stripConv(t)
		return c.isRecvField(t, c.a.CountField) || (t.Op == "len" && c.isRecvField(t.A[0], c.a.WarriorsField))
	}
	// the length of a result: make(_, n) here, or in a module function the count is handed to
	var resultLen func(f *ssa.Function, t *T, depth int) (*T, bool)
	resultLen = func(f *ssa.Function, t *T, depth int) (*T, bool) {
		t = stripConv(t)
		switch {
		case t.Op == "makeslice":
			return t.A[0], true
		case t.Op == "call" && depth < 3:
			g := w.funcByKey(t.S)
			if g == nil || len(g.Blocks) == 0 || len(t.A) != len(g.Params) {
				return nil, false
			}
			gps, err := w.Paths(g)
			if err != nil {
				return nil, false
			}
			var out *T
			for _, gp := range gps {
				if gp.End != "ret" || len(gp.Ret) != 1 {
					continue
				}
				n, ok := resultLen(g, gp.Ret[0], depth+1)
				if !ok {
					return nil, false
				}
				n = stripConv(n)
				if n.Op == "p" {
					for k, prm := range g.Params {
						if prm.Name() == n.S {
							n = t.A[k]
						}
					}
				}
				if out != nil && !sameTerm(out, n) {
					return nil, false
				}
				out = n
			}
			return out, out != nil
		}
		return nil, false
	}
	d := newDedup(r)
	for _, p := range paths {
		if p.End != "ret" || len(p.Ret) != 1 {
			continue
		}
		ret := stripConv(p.Ret[0])
		if ret.Op == "nil" {
			empty := hasCond(p, func(a *T, v bool) bool {
				return a.Op == "eq" && v && ((isCount(a.A[0]) && a.A[1].IsConstVal(0)) || (isCount(a.A[1]) && a.A[0].IsConstVal(0)))
			})
			d.add(empty, "nil-only-when-empty", w.Pos(fn.Pos()), "nil is returned only when no warrior has been added", "Run returns nil on a path that has not established that the warrior list is empty: a battle that never started, is over or was just reset must still be answered with one flag per warrior")
			continue
		}
		n, ok := resultLen(fn, ret, 0)
		d.add(ok && isCount(n), "one-per-warrior", w.Pos(fn.Pos()), "the result has one element per added warrior", "Run returns "+ret.Show()+", which is not a list with one element per added warrior")
	}
	d.flush()
}

func ruleRunOnly(w *World, r *RuleResult) {
	c := newSimCtx(w)
	if c.a.Run == nil {
		r.undecided("anchors", "-", "Run unresolved")
		return
	}
	fn := c.a.Run
	paths, err := w.Paths(fn)
	if err != nil {
		r.undecided(fn.Name(), w.Pos(fn.Pos()), err.Error())
		return
	}
	d := newDedup(r)
	for _, p := range paths {
		for i := range p.Events {
			e := &p.Events[i]
			switch e.Kind {
			case "store":
				root := e.LV
				for root.Op == "sel" || root.Op == "elem" {
					root = root.A[0]
				}
				if root.Op == "makeslice" {
					// result[i] = warriors[i].Alive()
					v := stripConv(e.Val)
					good := false
					if v.Op == "call" && len(v.A) == 1 && strings.HasSuffix(v.S, ".Alive") {
						wr := stripEpoch(v.A[0])
						if wr.Op == "elem" && wr.A[1].Show() == e.LV.A[1].Show() {
							good = true
						}
					}
					// or the state test written out: warriors[i].state == alive
					if v.Op == "eq" && v.A[1].IsConst() && w.EnumValues("WarriorState")[v.A[1].C] == "WarriorAlive" {
						if x, ok := selOf(v.A[0], c.a.StateField); ok {
							wr := stripEpoch(x)
							for wr.Op == "deref" {
								wr = wr.A[0]
							}
							if wr.Op == "elem" && wr.A[1].Show() == e.LV.A[1].Show() {
								good = true
							}
						}
					}
					d.add(good, "result", c.posOf(e), "result[i] = warriors[i].Alive()", "result element "+e.LV.A[1].Show()+" is "+v.Show()+", not the aliveness of the warrior with the same index")
				} else {
					d.add(false, "store/"+e.LV.Show(), c.posOf(e), "", "Run writes simulator state directly ("+e.LV.Show()+"), so it can diverge from stepping with RunCycle")
				}
			case "call":
				mods, unk := w.modSet(e.Callee)
				good := e.Callee == c.a.RunCycle || (!unk && len(mods) == 0)
				d.add(good, "call/"+funcShort(e.Callee), c.posOf(e), "RunCycle or a pure query", "Run calls "+funcShort(e.Callee)+", which changes state outside RunCycle")
			}
		}
	}
	d.flush()
}

func ruleRunProgress(w *World, r *RuleResult) {
	c := newSimCtx(w)
	if c.a.Run == nil || c.a.RunCycle == nil {
		r.undecided("anchors", "-", "Run/RunCycle unresolved")
		return
	}
	rcPaths, err1 := w.Paths(c.a.RunCycle)
	runPaths, err2 := w.Paths(c.a.Run)
	if err1 != nil || err2 != nil {
		r.undecided("paths", w.Pos(c.a.Run.Pos()), "path exploration failed")
		return
	}
	// Run's continue paths: back edges of the loop that calls RunCycle
	type contPath struct {
		p *Path
	}
	var conts []*Path
	for _, p := range runPaths {
		callsRC := false
		for _, e := range p.Events {
			if e.Kind == "call" && e.Callee == c.a.RunCycle {
				callsRC = true
			}
		}
		if p.End == "backedge" && callsRC {
			// ensure the back edge belongs to the RunCycle loop: last event is the backedge right after the call's tests
			last := p.Events[len(p.Events)-1]
			inner := false
			for _, e := range p.Events {
				if e.Kind == "enterloop" && e.Block > 0 && e.Res != nil && last.Res != nil && e.Res.C == last.Res.C && len(e.Args) > 0 {
					inner = true // back edge of the result-collecting loop
				}
			}
			if !inner {
				conts = append(conts, p)
			}
		}
	}
	if len(conts) == 0 {
		r.undecided("run-loop", w.Pos(c.a.Run.Pos()), "Run has no loop around RunCycle that the rule can identify")
		return
	}
	// evaluate a Run condition under abstract (rc value, n class)
	eval := func(a *T, rc int64, rcKnown bool, nOne bool) tri {
		isRC := func(t *T) bool { t = stripConv(t); return t.Op == "call" && t.S == fnKey(c.a.RunCycle) }
		isN := func(t *T) bool {
			t = stripConv(t)
			return (t.Op == "len" && c.isRecvField(t.A[0], c.a.WarriorsField)) || c.isRecvField(t, c.a.CountField)
		}
		switch a.Op {
		case "eq":
			if isRC(a.A[0]) && a.A[1].IsConst() {
				if !rcKnown {
					return tU
				}
				if rc == a.A[1].C {
					return tT
				}
				return tF
			}
			if isN(a.A[0]) && a.A[1].IsConst() {
				switch {
				case a.A[1].C == 1:
					if nOne {
						return tT
					}
					return tF
				case a.A[1].C == 0:
					return tF
				}
				if nOne {
					return tF
				}
				return tU
			}
		case "lt":
			if a.A[0].IsConst() && isN(a.A[1]) {
				if a.A[0].C == 1 {
					if nOne {
						return tF
					}
					return tT
				}
				if a.A[0].C == 0 {
					return tT
				}
			}
			if a.A[0].IsConst() && isRC(a.A[1]) && rcKnown {
				if a.A[0].C < rc {
					return tT
				}
				return tF
			}
			if isRC(a.A[0]) && a.A[1].IsConst() && rcKnown {
				if rc < a.A[1].C {
					return tT
				}
				return tF
			}
		case "le":
			if a.A[0].IsConst() && isRC(a.A[1]) && rcKnown {
				if a.A[0].C <= rc {
					return tT
				}
				return tF
			}
			if isRC(a.A[0]) && a.A[1].IsConst() && rcKnown {
				if rc <= a.A[1].C {
					return tT
				}
				return tF
			}
		}
		return tU
	}
	n := 0
	for _, p := range rcPaths {
		if p.End != "ret" || len(p.Ret) != 1 {
			continue
		}
		progress := false
		for _, e := range p.Events {
			if e.Kind == "store" && c.isRecvField(e.LV, c.a.CycleField) {
				progress = true
			}
			if e.Kind == "call" && e.Callee == c.a.Exec {
				progress = true // a task ran; the battle state advanced
			}
		}
		if progress {
			continue
		}
		n++
		// abstract this return
		capHit := hasCond(p, func(a *T, v bool) bool {
			return a.Op == "le" && v && c.isRecvField(a.A[0], c.a.MaxCycles) && c.isRecvField(a.A[1], c.a.CycleField)
		})
		key := fmt.Sprintf("RunCycle-return/%s", condsKey(p))
		pos := w.Pos(c.a.RunCycle.Pos())
		if len(p.Conds) > 0 {
			pos = w.Pos(p.Conds[len(p.Conds)-1].Pos)
		}
		if capHit {
			// Run's loop guard must be cycle < max
			g := true
			for _, cp := range conts {
				if !hasCond(cp, func(a *T, v bool) bool {
					return a.Op == "lt" && v && c.isRecvField(a.A[0], c.a.CycleField) && c.isRecvField(a.A[1], c.a.MaxCycles)
				}) {
					g = false
				}
			}
			r.check(g, key, pos, "cycle limit reached: Run's loop guard cycle < max fails", "RunCycle refuses at the cycle limit but Run's loop does not test cycle < max")
			continue
		}
		ret := stripConv(p.Ret[0])
		rcKnown := ret.IsConst()
		rc := ret.C
		if !rcKnown {
			// value pinned by an equality on the path, e.g. living-1 == 1
			for _, cd := range p.Conds {
				if cd.Atom.Op == "eq" && cd.Val && cd.Atom.A[1].IsConst() && cd.Atom.A[0].Show() == ret.Show() {
					rcKnown, rc = true, cd.Atom.A[1].C
				}
			}
		}
		multi := hasCond(p, func(a *T, v bool) bool {
			return a.Op == "lt" && v && a.A[0].IsConstVal(1) && c.isCount(a.A[1])
		})
		var stuck []string
		for _, nOne := range []bool{true, false} {
			if nOne && multi {
				continue
			}
			for _, cp := range conts {
				sat := true
				for _, cd := range cp.Conds {
					t := eval(cd.Atom, rc, rcKnown, nOne)
					if (t == tT && !cd.Val) || (t == tF && cd.Val) {
						sat = false
						break
					}
				}
				if sat {
					nn := "several warriors"
					if nOne {
						nn = "one warrior"
					}
					stuck = append(stuck, nn)
					break
				}
			}
		}
		rs := ret.Show()
		if rcKnown {
			rs = fmt.Sprintf("%d", rc)
		}
		r.check(len(stuck) == 0, key, pos, "return value "+rs+" makes Run's loop exit for every warrior count", fmt.Sprintf("RunCycle returns %s without running anything or advancing the cycle counter, and Run's loop continues on that value with %s: Run never returns", rs, strings.Join(stuck, " and with ")))
	}
	if n == 0 {
		r.note("RunCycle has no non-progress return")
	}
}

func condsKey(p *Path) string {
	var ks []string
	for _, cd := range p.Conds {
		s := stripEpoch(cd.Atom).Key()
		if !cd.Val {
			s = "!" + s
		}
		ks = append(ks, s)
	}
	return strings.Join(ks, "&")
}

func ruleAPIIndex(w *World, r *RuleResult) {
	c := newSimCtx(w)
	if len(c.a.Err) > 0 || c.a.WarriorsField == "" {
		r.undecided("anchors", "-", "warrior list unresolved")
		return
	}
	d := newDedup(r)
	isBound := func(t *T) bool {
		t = stripConv(t)
		return c.isRecvField(t, c.a.CountField) || (t.Op == "len" && c.isRecvField(t.A[0], c.a.WarriorsField))
	}
	for _, fn := range libRoots(w) {
		paths, err := w.Paths(fn)
		if err != nil {
			continue
		}
		for _, p := range paths {
			for i := range p.Events {
				e := &p.Events[i]
				if e.Kind != "load" && e.Kind != "store" {
					continue
				}
				// find elem(warriors, idx) anywhere in the lvalue chain
				var idx *T
				e.LV.walk(func(x *T) bool {
					if x.Op == "elem" && c.isRecvField(x.A[0], c.a.WarriorsField) {
						idx = x.A[1]
						return false
					}
					return true
				})
				if idx == nil {
					continue
				}
				ik := idx.Show()
				upper, lower := indexWithin(w, fn, p, idx, isBound)
				// stable key per function and index expression
				key := fmt.Sprintf("%s/warriors[%s]", fn.Name(), ik)
				msg := ""
				if !upper {
					msg = "no dominating test i < count"
				}
				if !lower {
					if msg != "" {
						msg += " and "
					}
					msg += "no dominating test i >= 0 for a signed index"
				}
				d.add(upper && lower, key, c.posOf(e), "0 <= i < count on every path", "warrior list indexed by "+ik+" with "+msg+": an out-of-range index panics instead of being refused")
			}
		}
	}
	// count == len(list): paired update
	for _, fn := range libRoots(w) {
		paths, _ := w.Paths(fn)
		for _, p := range paths {
			cnt, app := 0, 0
			var ev *Event
			for i := range p.Events {
				e := &p.Events[i]
				if e.Kind == "store" && c.isRecvField(e.LV, c.a.CountField) {
					cnt++
					ev = e
					l := linearOf(e.Val)
					if !(l.Const == 1 && len(l.Coef) == 1) {
						cnt += 10
					}
				}
				if e.Kind == "store" && c.isRecvField(e.LV, c.a.WarriorsField) {
					app++
					ev = e
					if !(e.Val.Op == "builtin" && e.Val.S == "append") {
						app += 10
					}
				}
			}
			if c.a.CountField == "" {
				continue // the count is len(list) itself: nothing to keep in step
			}
			if cnt+app > 0 {
				d.add(cnt == 1 && app == 1, fn.Name()+"/count==len", c.posOf(ev), "count incremented exactly when one warrior is appended", "warrior count and warrior list are not updated together (count == len(list) would break)")
			}
		}
	}
	d.flush()
}

// exported surface: functions reachable from exported functions and interface methods
func apiReachable(w *World, c *simCtx) map[*ssa.Function]bool {
	seen := map[*ssa.Function]bool{}
	var visit func(f *ssa.Function)
	visit = func(f *ssa.Function) {
		if f == nil || seen[f] || f.Pkg != w.SLib {
			return
		}
		seen[f] = true
		for _, b := range f.Blocks {
			for _, in := range b.Instrs {
				if ci, ok := in.(ssa.CallInstruction); ok {
					visit(ci.Common().StaticCallee())
				}
			}
		}
	}
	for _, iname := range []string{"Simulator", "ReportingSimulator", "Warrior", "Reporter"} {
		obj := w.Lib.Types.Scope().Lookup(iname)
		if obj == nil {
			continue
		}
		iface := obj.Type().Underlying().(*types.Interface)
		for _, nt := range []*types.Named{c.a.SimT, c.a.WarT} {
			for i := 0; i < iface.NumMethods(); i++ {
				if f := w.Method(nt.Obj().Name(), iface.Method(i).Name()); f != nil {
					visit(f)
				}
			}
		}
	}
	return seen
}

func ruleAPINil(w *World, r *RuleResult) {
	c := newSimCtx(w)
	if len(c.a.Err) > 0 {
		r.undecided("anchors", "-", strings.Join(c.a.Err, "; "))
		return
	}
	ws := w.EnumValues("WarriorState")
	reach := apiReachable(w, c)
	d := newDedup(r)
	// executor and helpers run only for a warrior tested alive by the caller
	execScope := map[*ssa.Function]bool{c.a.Exec: true}
	for _, h := range c.a.Helpers {
		execScope[h] = true
	}
	var fns []*ssa.Function
	for f := range reach {
		if !w.covered(f) { // a helper expanded in place is judged inside its callers
			fns = append(fns, f)
		}
	}
	sort.Slice(fns, func(i, j int) bool { return fns[i].String() < fns[j].String() })
	for _, fn := range fns {
		paths, err := w.Paths(fn)
		if err != nil {
			continue
		}
		for _, p := range paths {
			for i := range p.Events {
				e := &p.Events[i]
				if e.Kind != "call" || len(e.Args) == 0 {
					continue
				}
				wx, ok := selOf(e.Args[0], c.a.QField)
				if !ok || e.Callee == nil || e.Callee.Signature.Recv() == nil {
					continue
				}
				key := fmt.Sprintf("%s/%s.%s()", fn.Name(), c.a.QField, e.Callee.Name())
				if execScope[fn] {
					d.add(true, key, c.posOf(e), "executor scope: the caller tested state == alive for this warrior (checked at the call site)", "")
					continue
				}
				wk := stripEpoch(wx).Key()
				nilChecked := hasCond(p, func(a *T, v bool) bool {
					if a.Op == "eq" && !v && a.A[1].Op == "nil" {
						x, ok := selOf(a.A[0], c.a.QField)
						return ok && stripEpoch(x).Key() == wk
					}
					return false
				})
				alive := hasCond(p, func(a *T, v bool) bool {
					if a.Op == "eq" && v && a.A[1].IsConst() && ws[a.A[1].C] == "WarriorAlive" {
						x, ok := selOf(a.A[0], c.a.StateField)
						return ok && stripEpoch(x).Key() == wk
					}
					return false
				})
				fresh := false
				for j := 0; j < i; j++ {
					e2 := &p.Events[j]
					if e2.Kind == "store" {
						if x, ok := selOf(e2.LV, c.a.QField); ok && stripEpoch(x).Key() == wk && c.freshQueue(w, e2.Val) {
							fresh = true
						}
					}
				}
				d.add(nilChecked || alive || fresh, key, c.posOf(e), "guarded by a nil test, by state == alive, or the queue was just created", "method "+e.Callee.Name()+" called on the queue pointer of a warrior that may never have been spawned (nil queue): panic instead of an error")
			}
		}
	}
	// call sites of the executor: warrior tested alive
	for _, callRoot := range w.CallerRoots(c.a.Exec) {
		paths, _ := w.Paths(callRoot)
		for _, p := range paths {
			for i := range p.Events {
				e := &p.Events[i]
				if e.Kind == "call" && e.Callee == c.a.Exec {
					wk := stripEpoch(e.Args[2]).Key()
					alive := hasCond(p, func(a *T, v bool) bool {
						if a.Op == "eq" && v && a.A[1].IsConst() && ws[a.A[1].C] == "WarriorAlive" {
							x, ok := selOf(a.A[0], c.a.StateField)
							return ok && stripEpoch(x).Key() == wk
						}
						return false
					})
					d.add(alive, callRoot.Name()+"/exec-alive", c.posOf(e), "executor invoked only for a warrior tested alive", "executor invoked for a warrior not tested alive on this path")
				}
			}
		}
	}
	d.flush()
}

func ruleResetCover(w *World, r *RuleResult) {
	c := newSimCtx(w)
	if len(c.a.Err) > 0 || c.a.Reset == nil {
		r.undecided("anchors", "-", strings.Join(c.a.Err, "; "))
		return
	}
	battle := map[string]bool{}
	for _, f := range []*ssa.Function{c.a.RunCycle, c.a.Spawn} {
		m, _ := w.modSet(f)
		for k := range m {
			battle[k] = true
		}
	}
	resetMods, _ := w.modSet(c.a.Reset)
	fieldsOf := func(nt *types.Named) []string {
		st := nt.Underlying().(*types.Struct)
		var out []string
		for i := 0; i < st.NumFields(); i++ {
			out = append(out, st.Field(i).Name())
		}
		return out
	}
	// constant-only fields
	constOnly := func(tn, f string) (bool, string) {
		vals := map[string]bool{}
		for _, fn := range libRoots(w) {
			paths, _ := w.Paths(fn)
			for _, p := range paths {
				for _, e := range p.Events {
					if e.Kind == "store" && e.LV.Op == "sel" && e.LV.S == f && e.LV.A[0].Op == "deref" && strings.Contains(typeName(e.LV.A[0].A[0].Ty), tn) {
						vals[e.Val.Show()] = true
						if !e.Val.IsConst() {
							vals["<non-constant>"] = true
						}
					}
				}
			}
		}
		if len(vals) == 1 {
			for v := range vals {
				if v != "<non-constant>" {
					return true, v
				}
			}
		}
		return false, ""
	}
	// the core's contents are changed by every battle: Reset must replace the core
	// ... or zero every cell of it (clear(core)), which a fresh make does as well
	cleared := false
	if rps, err := w.Paths(c.a.Reset); err == nil {
		all := len(rps) > 0
		for _, p := range rps {
			if p.End != "ret" {
				continue
			}
			here := false
			for i := range p.Events {
				e := &p.Events[i]
				if e.Kind == "builtin" && e.Method == "clear" && len(e.Args) == 1 && c.isRecvField(e.Args[0], c.a.MemField) {
					here = true
				}
			}
			all = all && here
		}
		cleared = all
	}
	// "re-initialised by Reset" means on every path through Reset, not on some: which fields of the
	// simulator does each returning path store?
	everyPath := map[string]bool{}
	if rps, err := w.Paths(c.a.Reset); err == nil {
		first := true
		for _, p := range rps {
			if p.End != "ret" {
				continue
			}
			here := map[string]bool{}
			for i := range p.Events {
				e := &p.Events[i]
				if e.Kind == "store" && e.LV.Op == "sel" {
					here[e.LV.S] = true
				}
				if e.Kind == "builtin" && e.Method == "clear" && len(e.Args) == 1 && stripConv(e.Args[0]).Op == "sel" {
					here[stripConv(e.Args[0]).S] = true
				}
			}
			// stores made by the loops the path runs through (one field store per warrior) are seen
			// on the loops' own back-edge paths: a field stored in a loop body counts for every path
			for _, q := range rps {
				if q.End == "backedge" {
					for i := range q.Events {
						if e := &q.Events[i]; e.Kind == "store" && e.LV.Op == "sel" {
							here[e.LV.S] = true
						}
					}
				}
			}
			if first {
				everyPath, first = here, false
				continue
			}
			for f := range everyPath {
				if !here[f] {
					delete(everyPath, f)
				}
			}
		}
	}
	for f := range resetMods {
		if resetMods[f] && !everyPath[f] && f != "[]" && !strings.HasPrefix(f, "global:") {
			// (an embedded struct replaced as a whole is seen as stores to its promoted fields)
			embedded := false
			sst := c.a.SimT.Underlying().(*types.Struct)
			for i := 0; i < sst.NumFields(); i++ {
				if sst.Field(i).Name() == f && embeddedStruct(sst.Field(i)) {
					embedded = true
				}
			}
			if (battle[f] || f == c.a.MemField) && !embedded {
				r.bad(c.a.SimT.Obj().Name()+"."+f+"/every-path", w.Pos(c.a.Reset.Pos()), "Reset re-initialises "+f+" on some paths only: under the other conditions what the last battle left behind survives the reset")
			}
		}
	}
	r.check(resetMods[c.a.MemField] || cleared, c.a.SimT.Obj().Name()+"."+c.a.MemField, w.Pos(c.a.Reset.Pos()), "core re-created by Reset (MOD.len checks it is make([]Instruction, M))", "Reset does not replace the core although battles change its cells")
	for _, nt := range []*types.Named{c.a.SimT, c.a.WarT} {
		tn := nt.Obj().Name()
		for _, f := range fieldsOf(nt) {
			if !battle[f] {
				continue
			}
			key := tn + "." + f
			pos := w.Pos(c.a.Reset.Pos())
			switch {
			case resetMods[f]:
				r.ok(key, pos, "re-initialised by Reset")
			case f == c.a.CountField || f == c.a.WarriorsField:
				r.ok(key, pos, "warrior list survives a reset by design")
			default:
				if ok, v := constOnly(tn, f); ok {
					r.ok(key, pos, "only ever stored the constant "+v)
					continue
				}
				if nt == c.a.WarT && f == c.a.QField {
					// re-created by spawn on every success path before the warrior becomes alive
					all := true
					paths, _ := w.Paths(c.a.Spawn)
					for _, p := range paths {
						alive, fresh := false, false
						for _, e := range p.Events {
							if e.Kind == "store" {
								if _, ok := selOf(e.LV, c.a.StateField); ok {
									alive = true
								}
								if _, ok := selOf(e.LV, c.a.QField); ok && c.freshQueue(w, e.Val) && !alive {
									fresh = true
								}
							}
						}
						if alive && !fresh {
							all = false
						}
					}
					r.check(all, key, w.Pos(c.a.Spawn.Pos()), "not reset, but unconditionally re-created by spawn before the warrior becomes alive", "the process queue survives Reset and spawn does not unconditionally replace it: after Reset + spawn the warrior still holds its old tasks")
					continue
				}
				r.bad(key, pos, "field is changed by a battle (RunCycle/Spawn) but neither Reset nor a re-spawn re-initialises it: a reset simulator differs from a fresh one")
			}
		}
	}
}

func ruleModCfgReal(w *World, r *RuleResult) {
	c := newSimCtx(w)
	if len(c.a.Err) > 0 {
		r.undecided("anchors", "-", strings.Join(c.a.Err, "; "))
		return
	}
	validate := w.Method("SimulatorConfig", "Validate")
	if validate == nil {
		r.undecided("Validate", "-", "SimulatorConfig.Validate not found")
		return
	}
	paths, err := w.Paths(validate)
	if err != nil {
		r.undecided("Validate", w.Pos(validate.Pos()), err.Error())
		return
	}
	need := map[string]int64{"CoreSize": 3, "Processes": 1, "ReadLimit": 1, "WriteLimit": 1, "Cycles": 1}
	for f, min := range need {
		good := true
		n := 0
		for _, p := range paths {
			if p.End != "ret" || len(p.Ret) != 1 || p.Ret[0].Op != "nil" {
				continue
			}
			n++
			if !hasCond(p, func(a *T, v bool) bool {
				if a.Op == "lt" && !v && a.A[1].IsConst() && a.A[1].C >= min {
					x := stripConv(a.A[0])
					return x.Op == "sel" && x.S == f && x.A[0].Op == "p"
				}
				if a.Op == "le" && v && a.A[0].IsConst() && a.A[0].C >= min {
					x := stripConv(a.A[1])
					return x.Op == "sel" && x.S == f && x.A[0].Op == "p"
				}
				if a.Op == "eq" && !v && a.A[1].IsConstVal(0) && min <= 1 && !isSigned(a.A[0].Ty) && isIntType(a.A[0].Ty) {
					// an unsigned field that is not zero is at least one
					x := stripConv(a.A[0])
					return x.Op == "sel" && x.S == f && x.A[0].Op == "p"
				}
				return false
			}) {
				good = false
			}
		}
		r.check(good && n > 0, "Validate/"+f, w.Pos(validate.Pos()), fmt.Sprintf("success implies %s >= %d", f, min), fmt.Sprintf("Validate can succeed with %s < %d although the simulator divides by / allocates with it", f, min))
	}
	// constructors: Validate called and its error returned before the configuration is used
	for _, ctor := range []*ssa.Function{c.a.Ctor, Asm(w).NewCompiler} {
		if ctor == nil {
			continue
		}
		ps, err := w.Paths(ctor)
		if err != nil {
			r.undecided(ctor.Name(), w.Pos(ctor.Pos()), err.Error())
			continue
		}
		good := true
		for _, p := range ps {
			uses := false
			for _, e := range p.Events {
				if e.Kind == "store" {
					e.Val.walk(func(x *T) bool {
						if x.Op == "call" && x.S == fnKey(validate) {
							return false
						}
						if x.Op == "p" && typeName(x.Ty) == "SimulatorConfig" {
							uses = true
						}
						return true
					})
				}
			}
			if !uses {
				continue
			}
			if !hasCond(p, func(a *T, v bool) bool {
				return a.Op == "eq" && v && a.A[1].Op == "nil" && a.A[0].Op == "call" && a.A[0].S == fnKey(validate)
			}) {
				good = false
			}
		}
		r.check(good, ctor.Name()+"/validates", w.Pos(ctor.Pos()), "every path that uses the configuration passed Validate() == nil", "constructor uses the configuration on a path where Validate was not called or its error ignored")
	}
}

func init() {
	register(&Rule{Name: "TAB.recorder", Min: 8, Doc: "state recorder: report type -> (state, owner) table; reset clears every cell", Run: ruleTabRecorder})
	register(&Rule{Name: "REFUSE.pure", Min: 2, Doc: "a call that returns an error has not changed any state", Run: ruleRefusePure})
}

// recModel: how the state recorder keeps (state, owner) per address — two
// parallel arrays, or one array of two-field cells — and what its size is.
type recModel struct {
	stateF, colorF          string // parallel arrays ([]CoreState, []int)
	cellF, cStateF, cColorF string // or one array of structs with a CoreState and an int field
	sizeF                   string // a field holding the core size (may be absent: len of an array)
}

func resolveRecorder(w *World) (*recModel, bool) {
	nt := w.NamedType("StateRecorder")
	if nt == nil {
		return nil, false
	}
	st, ok := nt.Underlying().(*types.Struct)
	if !ok {
		return nil, false
	}
	m := &recModel{}
	for i := 0; i < st.NumFields(); i++ {
		f := st.Field(i)
		if sl, ok := f.Type().Underlying().(*types.Slice); ok {
			if typeName(sl.Elem()) == "CoreState" {
				m.stateF = f.Name()
			} else if b, ok := sl.Elem().(*types.Basic); ok && b.Kind() == types.Int {
				m.colorF = f.Name()
			} else if cs, ok := sl.Elem().Underlying().(*types.Struct); ok {
				var sf, cf string
				for k := 0; k < cs.NumFields(); k++ {
					cfld := cs.Field(k)
					if typeName(cfld.Type()) == "CoreState" {
						sf = cfld.Name()
					} else if b, ok := cfld.Type().(*types.Basic); ok && b.Kind() == types.Int {
						cf = cfld.Name()
					}
				}
				if sf != "" && cf != "" && cs.NumFields() == 2 {
					m.cellF, m.cStateF, m.cColorF = f.Name(), sf, cf
				}
			}
		}
		if typeName(f.Type()) == "Address" {
			m.sizeF = f.Name()
		}
	}
	parallel := m.stateF != "" && m.colorF != "" && m.sizeF != ""
	cells := m.cellF != ""
	if parallel == cells {
		return nil, false
	}
	if cells {
		m.stateF, m.colorF = "", ""
	}
	return m, true
}

// arrayKind: t is one of the recorder's arrays: "state", "color" or "cell".
func (m *recModel) arrayKind(t *T) string {
	for f, k := range map[string]string{m.stateF: "state", m.colorF: "color", m.cellF: "cell"} {
		if f == "" {
			continue
		}
		if recv, ok := selOf(t, f); ok && typeName(recv.Ty) == "*StateRecorder" {
			return k
		}
	}
	return ""
}

// isSize: t is the core size as the recorder knows it: its size field, or the
// length of one of its arrays (all made with the core size, never replaced).
func (m *recModel) isSize(t *T) bool {
	t = stripConv(t)
	if m.sizeF != "" {
		if recv, ok := selOf(t, m.sizeF); ok && typeName(recv.Ty) == "*StateRecorder" {
			return true
		}
	}
	return t.Op == "len" && m.arrayKind(t.A[0]) != ""
}

type cellWrite struct {
	idx, val *T
	ev       *Event
}

// writes: the last state write and the last owner write of a path, whichever
// way the cell is stored (element of a parallel array, a whole cell, or one
// field of a cell).
func (m *recModel) writes(p *Path) (state, color *cellWrite) {
	for i := range p.Events {
		e := &p.Events[i]
		if e.Kind != "store" {
			continue
		}
		lv := e.LV
		if lv.Op == "elem" {
			switch m.arrayKind(lv.A[0]) {
			case "state":
				state = &cellWrite{lv.A[1], e.Val, e}
			case "color":
				color = &cellWrite{lv.A[1], e.Val, e}
			case "cell":
				state = &cellWrite{lv.A[1], mksel(e.Val, m.cStateF, nil), e}
				color = &cellWrite{lv.A[1], mksel(e.Val, m.cColorF, nil), e}
			}
		}
		if lv.Op == "sel" && lv.A[0].Op == "elem" && m.arrayKind(lv.A[0].A[0]) == "cell" {
			switch lv.S {
			case m.cStateF:
				state = &cellWrite{lv.A[0].A[1], e.Val, e}
			case m.cColorF:
				color = &cellWrite{lv.A[0].A[1], e.Val, e}
			}
		}
	}
	return
}

func ruleTabRecorder(w *World, r *RuleResult) {
	c := newSimCtx(w)
	rep := w.Method("StateRecorder", "Report")
	if rep == nil {
		r.undecided("anchors", "-", "StateRecorder.Report not found")
		return
	}
	m, ok := resolveRecorder(w)
	if !ok {
		r.undecided("anchors", w.Pos(rep.Pos()), "recorder fields unresolved")
		return
	}
	cs := map[string]int64{}
	for v, n := range w.EnumValues("CoreState") {
		cs[n] = v
	}
	table := map[string]string{"WarriorTaskPop": "CoreExecuted", "WarriorWrite": "CoreWritten", "WarriorIncrement": "CoreIncremented", "WarriorDecrement": "CoreDecremented", "WarriorTaskTerminate": "CoreTerminated", "WarriorRead": "CoreRead", "WarriorSpawn": "CoreWritten"}
	paths, err := w.Paths(rep)
	if err != nil {
		r.undecided("paths", w.Pos(rep.Pos()), err.Error())
		return
	}
	pname := rep.Params[1].Name()
	isRepField := func(t *T, f string) bool {
		t = stripConv(t)
		return t.Op == "sel" && t.S == f && t.A[0].Op == "p" && t.A[0].S == pname
	}
	typeOf := func(p *Path) (int64, bool) {
		for k, set := range p.Sets {
			if isRepField(p.SetTerms[k], "Type") {
				if bs := bitsOf(set); len(bs) == 1 {
					return bs[0], true
				}
			}
		}
		return 0, false
	}
	rtName := w.EnumValues("ReportType")
	// the record (want, reporting warrior) written at the reported address
	recordsAt := func(st, co *cellWrite, want string, isRep func(*T, string) bool) bool {
		return st != nil && co != nil && stripConv(st.val).IsConstVal(cs[want]) && isRep(co.val, "WarriorIndex") && isRep(st.idx, "Address") && isRep(co.idx, "Address")
	}
	seen := map[string]bool{}
	for _, p := range paths {
		tv, ok := typeOf(p)
		st, co := m.writes(p)
		if !ok {
			// the residual path for all unlisted types must store nothing
			r.check(st == nil && co == nil, "other-types", w.Pos(rep.Pos()), "report types outside the table leave the record untouched", "a path not specialised to one report type changes the record")
			continue
		}
		tn := rtName[tv]
		want, listed := table[tn]
		key := tn
		switch {
		case tn == "SimReset":
			called := false
			for _, e := range p.Events {
				if e.Kind == "call" && e.Callee != nil && e.Callee.Signature.Recv() != nil {
					if ok, msg := checkRecorderReset(w, c, e.Callee, m, cs); ok {
						called = true
					} else if msg != "" {
						r.bad("SimReset/body", w.Pos(e.Callee.Pos()), msg)
						called = true
					}
				}
			}
			r.check(called, key, w.Pos(rep.Pos()), "reset report clears every cell to (empty, -1)", "the reset report does not reach a loop that clears every cell")
			seen[tn] = true
		case !listed:
			r.check(st == nil && co == nil, key, w.Pos(rep.Pos()), "no core cell is touched by this report type", "report type "+tn+" changes the record although it names no core operation")
		case tn == "WarriorRead":
			on := hasCond(p, func(a *T, v bool) bool { return a.Op == "sel" && v })
			if on {
				r.check(recordsAt(st, co, want, isRepField), key+"/recording", w.Pos(rep.Pos()), "records (CoreRead, warrior) at the reported address", "with read recording on, a read report does not store (CoreRead, warrior index) at the reported address")
				seen[tn] = true
			} else {
				r.check(st == nil && co == nil, key+"/not-recording", w.Pos(rep.Pos()), "reads ignored unless recording is switched on", "a read report changes the record although read recording is off")
			}
		case tn == "WarriorSpawn":
			// the marking loop, in the handler itself or in a method it hands the report to
			spawnLoop := func(p *Path, isRep func(*T, string) bool) (found, good bool) {
				if p.End != "backedge" {
					return false, false
				}
				st, co := m.writes(p)
				good = st != nil && co != nil && stripConv(st.val).IsConstVal(cs[want]) && isRep(co.val, "WarriorIndex")
				for _, cw := range []*cellWrite{st, co} {
					if cw == nil {
						good = false
						continue
					}
					idx := stripConv(cw.idx)
					if !(idx.Op == "rem" && idx.A[0].Op == "loopvar" && m.isSize(idx.A[1])) {
						good = false
					}
				}
				start := false
				for _, e := range p.Events {
					if e.Kind == "enterloop" && len(e.Args) > 0 && isRep(e.Args[0], "Address") {
						start = true
					}
				}
				return true, good && start
			}
			found, good := spawnLoop(p, isRepField)
			if !found {
				for _, e := range p.Events {
					if e.Kind != "call" || e.Callee == nil || e.Callee.Pkg != rep.Pkg {
						continue
					}
					// the callee is handed the report, or the fields of it that it needs
					var rp string
					fieldParam := map[string]string{} // report field -> callee parameter
					for k, prm := range e.Callee.Params {
						if k >= len(e.Args) {
							continue
						}
						if typeName(prm.Type()) == "Report" && e.Args[k].Op == "p" && e.Args[k].S == pname {
							rp = prm.Name()
						}
						for _, f := range []string{"Address", "WarriorIndex"} {
							if isRepField(e.Args[k], f) {
								fieldParam[f] = prm.Name()
							}
						}
					}
					if rp == "" && len(fieldParam) == 0 {
						continue
					}
					cps, _ := w.Paths(e.Callee)
					for _, cp := range cps {
						f2, g2 := spawnLoop(cp, func(t *T, f string) bool {
							t = stripConv(t)
							if t.Op == "p" && fieldParam[f] != "" && t.S == fieldParam[f] {
								return true
							}
							return rp != "" && t.Op == "sel" && t.S == f && t.A[0].Op == "p" && t.A[0].S == rp
						})
						if f2 {
							found, good = true, g2
						}
					}
				}
			}
			if found {
				r.check(good, key, w.Pos(rep.Pos()), "marks [addr, addr+length) modulo the core size as written by the warrior", "the spawn report does not mark every loaded cell (index % coresize) as (CoreWritten, warrior index) starting at the reported address")
				seen[tn] = true
			}
		default:
			got := "nothing"
			if st != nil {
				got = st.val.Show()
				if v := stripConv(st.val); v.IsConst() {
					got = w.EnumValues("CoreState")[v.C]
				}
			}
			r.check(recordsAt(st, co, want, isRepField), key, w.Pos(rep.Pos()), "records ("+want+", warrior index) at the reported address", "report "+tn+" records "+got+" instead of ("+want+", warrior index) at the reported address")
			seen[tn] = true
		}
	}
	for tn := range table {
		if !seen[tn] {
			r.bad(tn+"/missing", w.Pos(rep.Pos()), "no path of the recorder handles report type "+tn)
		}
	}
	if !seen["SimReset"] {
		r.bad("SimReset/missing", w.Pos(rep.Pos()), "the recorder ignores the reset report")
	}
}

func checkRecorderReset(w *World, c *simCtx, fn *ssa.Function, m *recModel, cs map[string]int64) (bool, string) {
	paths, err := w.Paths(fn)
	if err != nil {
		return false, ""
	}
	// the state and the owner of every address are set to their empty values over the whole
	// core: by a store in a loop that sweeps 0 .. coresize-1, or by clear() when that value is zero
	sweepOf := func(which string, want int64) (found, good bool, msg string) {
		for _, p := range paths {
			for i := range p.Events {
				e := &p.Events[i]
				if e.Kind == "builtin" && e.Method == "clear" && len(e.Args) == 1 {
					if k := m.arrayKind(e.Args[0]); k == which || k == "cell" {
						found = true
						if want == 0 {
							good = true
						} else {
							msg = "recorder reset zeroes the " + which + " of every cell although its empty value is not zero"
						}
					}
				}
			}
			if p.End != "backedge" {
				continue
			}
			stw, cow := m.writes(p)
			st := stw
			if which == "color" {
				st = cow
			}
			if st == nil {
				continue
			}
			found = true
			ix := stripConv(st.idx)
			li := linearOf(ix)
			var lv *T
			for k, at := range li.Atom {
				if at.Op == "loopvar" && li.Coef[k] == 1 && len(li.Atom) == 1 {
					lv = at
				}
			}
			if !stripConv(st.val).IsConstVal(want) || lv == nil {
				return true, false, "recorder reset stores " + st.val.Show() + " as the " + which + " instead of its empty value at a running index"
			}
			init, step, ok := loopVarInfo(w, fn, p, lv)
			first0 := ok && init.IsConst() && init.C+li.Const == 0
			bound := hasCond(p, func(a *T, v bool) bool {
				return a.Op == "lt" && v && sameTerm(a.A[0], ix) && m.isSize(a.A[1])
			})
			if !(first0 && step == 1 && bound) {
				return true, false, "recorder reset loop does not run over every address 0 .. coresize-1"
			}
			good = true
		}
		return
	}
	f1, g1, m1 := sweepOf("state", cs["CoreEmpty"])
	f2, g2, m2 := sweepOf("color", -1)
	if !f1 && !f2 {
		return false, "" // not the reset routine
	}
	if m1 != "" {
		return false, m1
	}
	if m2 != "" {
		return false, m2
	}
	if !(g1 && g2) {
		return false, "recorder reset does not set both the state and the owner of every cell to empty"
	}
	return true, ""
}

func ruleRefusePure(w *World, r *RuleResult) {
	c := newSimCtx(w)
	if len(c.a.Err) > 0 {
		r.undecided("anchors", "-", strings.Join(c.a.Err, "; "))
		return
	}
	reach := apiReachable(w, c)
	d := newDedup(r)
	var fns []*ssa.Function
	for f := range reach {
		if !w.covered(f) { // a helper expanded in place is judged inside its callers
			fns = append(fns, f)
		}
	}
	sort.Slice(fns, func(i, j int) bool { return fns[i].String() < fns[j].String() })
	for _, fn := range fns {
		res := fn.Signature.Results()
		if res.Len() == 0 || typeName(res.At(res.Len()-1).Type()) != "error" {
			continue
		}
		// only methods of the simulator / warrior / queue
		if fn.Signature.Recv() == nil {
			continue
		}
		paths, err := w.Paths(fn)
		if err != nil {
			continue
		}
		for _, p := range paths {
			if p.End != "ret" || len(p.Ret) == 0 || p.Ret[len(p.Ret)-1].Op == "nil" {
				continue
			}
			errT := p.Ret[len(p.Ret)-1]
			if errT.Op == "ext" || (errT.Op == "call" && !strings.HasPrefix(errT.S, "fmt.")) {
				continue // forwards a callee's verdict; the callee is checked itself
			}
			clean := true
			var bad *Event
			// what the path did, including the bodies of the loops it ran through
			evs := withLoopBodies(paths, p)
			for _, e := range evs {
				if e.Kind == "store" {
					root := e.LV
					for root.Op == "sel" || root.Op == "elem" {
						root = root.A[0]
					}
					if root.Op != "new" && root.Op != "makeslice" {
						clean = false
						bad = e
					}
				}
				if e.Kind == "call" && e.Callee != nil {
					if m, unk := w.modSet(e.Callee); (len(m) > 0 || unk) && (e.Callee.Pkg == w.SLib) {
						clean = false
						bad = e
					}
				}
			}
			pos := w.Pos(fn.Pos())
			if bad != nil {
				pos = c.posOf(bad)
			}
			d.add(clean, fn.Name()+"/error-return", pos, "error returned before any state change", "a path that returns an error has already changed simulator state")
		}
	}
	d.flush()
}

// withLoopBodies: the events of path p together with the events of one
// iteration of every loop p runs through (a path that enters and leaves a loop
// is cut at the header, so the body's effects are on the back-edge fragments).
func withLoopBodies(paths []*Path, p *Path) []*Event {
	var out []*Event
	for i := range p.Events {
		e := &p.Events[i]
		out = append(out, e)
		if e.Kind != "enterloop" {
			continue
		}
		h := e.Res.C
		for _, q := range paths {
			if q.End != "backedge" || q.Events[len(q.Events)-1].Res.C != h {
				continue
			}
			in := false
			for j := range q.Events {
				f := &q.Events[j]
				if f.Kind == "enterloop" && f.Res.C == h {
					in = true
					continue
				}
				if in && f.Kind != "backedge" {
					out = append(out, f)
				}
			}
		}
	}
	return out
}
