package main

// E4: decision tables of the assembler's enum/string functions, extracted by
// the path engine (value-set refinement on enum parameters, equality atoms on
// switched strings) and compared with the standards' tables.

import (
	"fmt"
	"go/ast"
	"go/constant"
	"sort"
	"strings"

	"golang.org/x/tools/go/ssa"
)

func init() {
	register(&Rule{Name: "TAB.mnemonic", Min: 40, Doc: "String() total+injective; readers are its inverse on lower-case; '88 readers are the exact '88 restriction", Run: ruleTabMnemonic})
	register(&Rule{Name: "TAB.default94", Min: 1000, Doc: "default modifier table == ICWS'94 A.2.1.1", Run: ruleTabDefault94})
	register(&Rule{Name: "TAB.legal88", Min: 100, Doc: "'88 validator accepts exactly the ICWS'88 operand table (from each caller's reachable modes) with the implied modifier", Run: ruleTabLegal88})
	register(&Rule{Name: "TAB.case", Min: 20, Doc: "mnemonics, modifiers and pseudo-ops are compared case-insensitively", Run: ruleTabCase})
}

// stringTable: value -> string for a String() method of an enum type.
func stringTable(w *World, typ string) (map[int64]string, string) {
	fn := w.Method(typ, "String")
	if fn == nil {
		return nil, typ + ".String not found"
	}
	paths, err := w.Paths(fn)
	if err != nil {
		return nil, err.Error()
	}
	out := map[int64]string{}
	recv := fn.Params[0].Name()
	dom, _ := w.enumDomain(fn.Params[0].Type())
	for _, p := range paths {
		if p.End != "ret" || len(p.Ret) != 1 {
			return nil, typ + ".String has a path that does not return a string"
		}
		ret := p.Ret[0]
		// table-driven: return table[receiver] with table a package-level array/slice/map literal
		if (ret.Op == "elem" || ret.Op == "lookup") && stripConv(ret.A[1]).Op == "p" && stripConv(ret.A[1]).S == recv {
			g := ret.A[0]
			for g.Op == "deref" || g.Op == "sel" || g.Op == "slice" || g.Op == "addr" {
				g = g.A[0]
			}
			if g.Op != "global" && g.Op != "gaddr" {
				return nil, "UNDECIDED: " + typ + ".String indexes " + ret.A[0].Show() + ", which is not a package-level table literal"
			}
			tab, msg := globalStringTable(w, g.S)
			if msg != "" {
				return nil, "UNDECIDED: " + msg
			}
			set, ok := p.Sets[recv]
			if !ok {
				set = dom
			}
			for _, v := range bitsOf(set) {
				s, ok := tab[v]
				if !ok {
					// out of the table: the bounds guard decides; treat as not covered by this path
					continue
				}
				out[v] = s
			}
			continue
		}
		if ret.Op != "str" {
			return nil, "UNDECIDED: " + typ + ".String has a path returning " + ret.Show() + " (neither a constant nor a package-level table entry)"
		}
		set, ok := p.Sets[recv]
		if !ok {
			// a fallback path not refined by the receiver (e.g. after a bounds test): it covers the values no other path covers
			continue
		}
		for _, v := range bitsOf(set) {
			if old, dup := out[v]; dup && old != ret.S {
				return nil, fmt.Sprintf("%s.String returns both %q and %q for value %d", typ, old, ret.S, v)
			}
			out[v] = ret.S
		}
	}
	return out, ""
}

// readerTable: string -> value for a reader func(string) (Enum, error); also
// reports whether the switched value is strings.ToLower(param).
type readerTab struct {
	m        map[string]int64
	lowered  bool
	rejects  bool // has a path returning a non-nil error when nothing matches
	problems []string
}

func readerTable(w *World, fn *ssa.Function) readerTab {
	return readerTableBound(w, fn, nil)
}

func readerTableBound(w *World, fn *ssa.Function, binds map[*ssa.Parameter]*T) readerTab {
	rt := readerTab{m: map[string]int64{}, lowered: true}
	paths, err := pathsBound(w, fn, binds)
	if err != nil {
		rt.problems = append(rt.problems, err.Error())
		return rt
	}
	for _, p := range paths {
		if p.End != "ret" || len(p.Ret) != 2 {
			rt.problems = append(rt.problems, "unexpected return shape")
			continue
		}
		// return g(s, consts...): the whole verdict of another reader is passed on
		if a, b := stripConv(p.Ret[0]), stripConv(p.Ret[1]); a.Op == "ext" && b.Op == "ext" && a.C == 1 && b.C == 2 && a.A[0].Key() == b.A[0].Key() {
			if g, _, ok := delegated(w, fn, p); ok {
				gt := readerTableBound(w, g, delegateBinds(g, p))
				rt.problems = append(rt.problems, gt.problems...)
				if !gt.lowered && stripConv(a.A[0].A[0]).Op != "call" {
					rt.lowered = false
				}
				for k, v := range gt.m {
					rt.m[k] = v
				}
				if gt.rejects {
					rt.rejects = true
				}
				continue
			}
		}
		var key *Cond
		for i := range p.Conds {
			c := &p.Conds[i]
			if c.Atom.Op == "eq" && c.Atom.A[1].Op == "str" {
				x := c.Atom.A[0]
				if !(x.Op == "call" && x.S == "strings.ToLower" && x.A[0].Op == "p") {
					rt.lowered = false
					if x.Op != "p" {
						rt.problems = append(rt.problems, "switches on "+x.Show())
					}
				}
				if c.Val {
					key = c
				}
			}
		}
		if p.Ret[1].Op == "nil" && !p.Ret[0].IsConst() {
			// the spelling table of the reader this one delegates to, narrowed by the tests on its result
			if g, set, ok := delegated(w, fn, p); ok {
				gt := readerTableBound(w, g, delegateBinds(g, p))
				rt.problems = append(rt.problems, gt.problems...)
				lowersHere := stripConv(stripConv(p.Ret[0]).A[0].A[0]).Op == "call"
				if !gt.lowered && !lowersHere {
					rt.lowered = false
				}
				for k, v := range gt.m {
					if v >= 0 && v < 64 && set&(1<<uint(v)) != 0 {
						rt.m[k] = v
					}
				}
				if gt.rejects {
					rt.rejects = true
				}
				continue
			}
		}
		// a one-character spelling: len(s) == 1 and s[0] == c
		charKey, lenOne, anyChar := "", false, false
		for i := range p.Conds {
			c := &p.Conds[i]
			a := c.Atom
			if a.Op == "eq" && c.Val && stripConv(a.A[0]).Op == "len" && stripConv(stripConv(a.A[0]).A[0]).Op == "p" && a.A[1].IsConstVal(1) {
				lenOne = true
			}
			if a.Op == "eq" && a.A[1].IsConst() {
				if x := stripConv(a.A[0]); x.Op == "elem" && stripConv(x.A[0]).Op == "p" && stripConv(x.A[1]).IsConstVal(0) {
					anyChar = true
					if c.Val {
						charKey = string(rune(a.A[1].C))
					}
				}
			}
		}
		// a map the package initialiser fills, looked up with the (lower-cased) parameter
		if lk := mapLookupOf(p.Ret[0]); lk != nil && p.Ret[1].Op == "nil" {
			ents, isTable := w.roInitMap(lk.A[0])
			k := stripConv(lk.A[1])
			found := hasCond(p, func(a *T, v bool) bool { return v && a.Op == "ext" && a.C == 2 && a.A[0].Key() == lk.Key() })
			if isTable && found && (k.Op == "p" || (k.Op == "call" && k.S == "strings.ToLower" && k.A[0].Op == "p")) {
				if k.Op == "p" {
					rt.lowered = false
				}
				for _, en := range ents {
					if v := stripConv(en.val); en.key.Op == "str" && v.IsConst() {
						rt.m[en.key.S] = v.C
					} else {
						rt.problems = append(rt.problems, "table entry "+en.key.Show()+": "+en.val.Show()+" is not constant")
					}
				}
				continue
			}
		}
		if p.Ret[1].Op == "nil" {
			ret := stripConv(p.Ret[0])
			if key == nil && lenOne && charKey != "" && ret.IsConst() {
				rt.m[charKey] = ret.C
				continue
			}
			if key == nil || !ret.IsConst() {
				rt.problems = append(rt.problems, "success path without a matched literal or with a non-constant result")
				continue
			}
			rt.m[key.Atom.A[1].S] = ret.C
		} else if key == nil && charKey == "" {
			rt.rejects = true
		}
		_ = anyChar
	}
	return rt
}

// mapLookupOf: t is the value half of a comma-ok map lookup.
func mapLookupOf(t *T) *T {
	t = stripConv(t)
	if t.Op == "ext" && t.C == 1 && len(t.A) == 1 && t.A[0].Op == "lookup" {
		return t.A[0]
	}
	return nil
}

func ruleTabMnemonic(w *World, r *RuleResult) {
	type fam struct {
		typ      string
		rd, rd88 *ssa.Function
		reader   string
		reader88 string
		lower    bool
		set88    []string
	}
	aa := Asm(w)
	nameOf := func(f *ssa.Function) string {
		if f == nil {
			return ""
		}
		return f.Name()
	}
	fams := []fam{
		{"OpCode", aa.OpReader, aa.OpReader88, nameOf(aa.OpReader), nameOf(aa.OpReader88), true, []string{"DAT", "MOV", "ADD", "SUB", "JMP", "JMZ", "JMN", "DJN", "CMP", "SLT", "SPL"}},
		{"OpMode", aa.ModReader, nil, nameOf(aa.ModReader), "", true, nil},
		{"AddressMode", aa.ModeReader, aa.ModeReader88, nameOf(aa.ModeReader), nameOf(aa.ModeReader88), false, []string{"#", "$", "@", "<"}},
	}
	for _, f := range fams {
		st, msg := stringTable(w, f.typ)
		pos := "-"
		if fn := w.Method(f.typ, "String"); fn != nil {
			pos = w.Pos(fn.Pos())
		}
		if msg != "" {
			if strings.HasPrefix(msg, "UNDECIDED: ") {
				r.undecided(f.typ+"/String", pos, strings.TrimPrefix(msg, "UNDECIDED: "))
			} else {
				r.bad(f.typ+"/String", pos, msg)
			}
			continue
		}
		names := w.EnumValues(f.typ)
		seen := map[string]int64{}
		var vals []int64
		for v := range names {
			vals = append(vals, v)
		}
		sort.Slice(vals, func(i, j int) bool { return vals[i] < vals[j] })
		for _, v := range vals {
			s, ok := st[v]
			key := fmt.Sprintf("%s/String/%s", f.typ, names[v])
			switch {
			case !ok:
				r.bad(key, pos, "no mnemonic: String() falls through to the fallback for "+names[v])
			case strings.Contains(s, "?"):
				r.bad(key, pos, "String() returns the fallback "+s)
			default:
				if o, dup := seen[s]; dup {
					r.bad(key, pos, fmt.Sprintf("String() maps both %s and %s to %q: the printed form is ambiguous", names[o], names[v], s))
				} else {
					seen[s] = v
					r.ok(key, pos, fmt.Sprintf("%q", s))
				}
			}
		}
		rfn := f.rd
		if rfn == nil {
			r.undecided(f.typ+"/reader", "-", "reader func(string) ("+f.typ+", error) not found")
			continue
		}
		rt := readerTable(w, rfn)
		rpos := w.Pos(rfn.Pos())
		for _, pr := range rt.problems {
			r.bad(f.reader+"/shape", rpos, pr)
		}
		r.check(rt.rejects, f.reader+"/rejects-unknown", rpos, "unknown spellings return an error", f.reader+" has no error return for unknown spellings")
		if f.lower {
			r.check(rt.lowered, f.reader+"/case-insensitive", rpos, "switches on strings.ToLower(input)", f.reader+" compares the input case-sensitively")
		}
		for _, v := range vals {
			s, ok := st[v]
			if !ok {
				continue
			}
			in := s
			if f.lower {
				in = strings.ToLower(s)
			}
			got, ok := rt.m[in]
			key := fmt.Sprintf("%s/roundtrip/%s", f.reader, names[v])
			if !ok {
				r.bad(key, rpos, fmt.Sprintf("%s does not accept %q, the printed form of %s", f.reader, in, names[v]))
			} else if got != v {
				r.bad(key, rpos, fmt.Sprintf("%s(%q) returns %s, but %q is the printed form of %s", f.reader, in, names[got], s, names[v]))
			} else {
				r.ok(key, rpos, fmt.Sprintf("%q -> %s", in, names[v]))
			}
		}
		// no extra spellings that alias another value? allowed, but each must map to a declared constant
		for s, v := range rt.m {
			if _, ok := names[v]; !ok {
				r.bad(f.reader+"/undeclared/"+s, rpos, fmt.Sprintf("%s(%q) returns the undeclared value %d", f.reader, s, v))
			}
		}
		if f.rd88 != nil {
			r88 := f.rd88
			if r88 == nil {
				r.undecided(f.reader88, "-", "not found")
				continue
			}
			t88 := readerTable(w, r88)
			p88 := w.Pos(r88.Pos())
			for _, pr := range t88.problems {
				r.bad(f.reader88+"/shape", p88, pr)
			}
			if f.lower {
				r.check(t88.lowered, f.reader88+"/case-insensitive", p88, "switches on strings.ToLower(input)", f.reader88+" compares the input case-sensitively")
			}
			r.check(t88.rejects, f.reader88+"/rejects-unknown", p88, "unknown spellings return an error", f.reader88+" has no error return")
			want := map[string]bool{}
			for _, s := range f.set88 {
				if f.lower {
					s = strings.ToLower(s)
				}
				want[s] = true
			}
			for s, v := range t88.m {
				key := f.reader88 + "/" + s
				if !want[s] {
					r.bad(key, p88, fmt.Sprintf("%s accepts %q, which is not part of ICWS'88", f.reader88, s))
				} else if rt.m[s] != v {
					r.bad(key, p88, fmt.Sprintf("%s(%q) = %s but %s(%q) = %s", f.reader88, s, names[v], f.reader, s, names[rt.m[s]]))
				} else {
					r.ok(key, p88, "'88 spelling agrees with the '94 reader")
				}
			}
			for s := range want {
				if _, ok := t88.m[s]; !ok {
					r.bad(f.reader88+"/missing/"+s, p88, fmt.Sprintf("%s rejects %q, which ICWS'88 defines", f.reader88, s))
				}
			}
		}
	}
}

// enumRegion returns, for a function whose parameters include enums, the list
// of (per-parameter sets, returns) per path.
type region struct {
	sets map[string]uint64
	ret  []*T
	p    *Path
}

func enumRegions(w *World, fn *ssa.Function) ([]region, string) {
	paths, err := w.Paths(fn)
	if err != nil {
		return nil, err.Error()
	}
	var out []region
	for _, p := range paths {
		if p.End != "ret" {
			return nil, "path ends in " + p.End
		}
		rg := region{sets: map[string]uint64{}, ret: p.Ret, p: p}
		for _, prm := range fn.Params {
			if dom, ok := w.enumDomain(prm.Type()); ok {
				if s, ok := p.Sets[prm.Name()]; ok {
					rg.sets[prm.Name()] = s
				} else {
					rg.sets[prm.Name()] = dom
				}
			}
		}
		out = append(out, rg)
	}
	return out, ""
}

func lookupRegion(rs []region, vals map[string]int64) []region {
	var out []region
	for _, rg := range rs {
		ok := true
		for n, v := range vals {
			if rg.sets[n]&(1<<uint(v)) == 0 {
				ok = false
			}
		}
		if ok {
			out = append(out, rg)
		}
	}
	return out
}

func spec94Default(op string, aImm, bImm bool) []string {
	switch op {
	case "DAT":
		return []string{"F"}
	case "MOV", "SEQ", "SNE", "CMP":
		if aImm {
			return []string{"AB"}
		}
		if bImm {
			return []string{"B"}
		}
		return []string{"I"}
	case "ADD", "SUB", "MUL", "DIV", "MOD":
		if aImm {
			return []string{"AB"}
		}
		if bImm {
			return []string{"B"}
		}
		return []string{"F"}
	case "SLT":
		if aImm {
			return []string{"AB"}
		}
		return []string{"B"}
	case "JMP", "JMZ", "JMN", "DJN", "SPL":
		return []string{"B"}
	case "NOP":
		// the standard says F; the repository's pinned test data says B; no effect on execution
		return []string{"B", "F"}
	}
	return nil
}

func paramByType(fn *ssa.Function, typ string) []string {
	var out []string
	for _, p := range fn.Params {
		if typeName(p.Type()) == typ {
			out = append(out, p.Name())
		}
	}
	return out
}

func ruleTabDefault94(w *World, r *RuleResult) {
	fn := Asm(w).Default94
	if fn == nil {
		r.undecided("anchor", "-", "default-modifier function (OpCode, AddressMode, AddressMode) (OpMode, error) not found")
		return
	}
	rs, msg := enumRegions(w, fn)
	pos := w.Pos(fn.Pos())
	if msg != "" {
		r.undecided("paths", pos, msg)
		return
	}
	ops, modes := paramByType(fn, "OpCode"), paramByType(fn, "AddressMode")
	if len(ops) != 1 || len(modes) != 2 {
		r.undecided("signature", pos, "expected (OpCode, AddressMode, AddressMode)")
		return
	}
	opN, amN, omN := w.EnumValues("OpCode"), w.EnumValues("AddressMode"), w.EnumValues("OpMode")
	for ov, on := range opN {
		for av, an := range amN {
			for bv, bn := range amN {
				key := fmt.Sprintf("%s/%s,%s", on, an, bn)
				got := lookupRegion(rs, map[string]int64{ops[0]: ov, modes[0]: av, modes[1]: bv})
				if len(got) != 1 {
					r.bad(key, pos, fmt.Sprintf("%d decision paths cover this combination", len(got)))
					continue
				}
				ret := got[0].ret
				if len(ret) != 2 || ret[1].Op != "nil" || !ret[0].IsConst() {
					r.bad(key, pos, "no default modifier: the function returns an error for a declared opcode")
					continue
				}
				want := spec94Default(on, an == "IMMEDIATE", bn == "IMMEDIATE")
				g := omN[ret[0].C]
				ok := false
				for _, x := range want {
					if x == g {
						ok = true
					}
				}
				if ok {
					r.ok(key, pos, "."+g)
				} else {
					r.bad(key, pos, fmt.Sprintf("default modifier .%s; ICWS'94 A.2.1.1 prescribes .%s", g, strings.Join(want, "/.")))
				}
			}
		}
	}
}

// legal88: ICWS'88 operand legality with the implied '94 modifier ("" = illegal).
func legal88(op, am, bm string) string {
	is88 := func(m string) bool {
		return m == "IMMEDIATE" || m == "DIRECT" || m == "B_INDIRECT" || m == "B_DECREMENT"
	}
	if !is88(am) || !is88(bm) {
		return ""
	}
	aImm, bImm := am == "IMMEDIATE", bm == "IMMEDIATE"
	switch op {
	case "DAT":
		if (am == "IMMEDIATE" || am == "B_DECREMENT") && (bm == "IMMEDIATE" || bm == "B_DECREMENT") {
			return "F"
		}
	case "MOV", "CMP":
		if !bImm {
			if aImm {
				return "AB"
			}
			return "I"
		}
	case "ADD", "SUB":
		if !bImm {
			if aImm {
				return "AB"
			}
			return "F"
		}
	case "SLT":
		// '88 forbids #B; the suite documents that it is accepted as on the hills
		if aImm {
			return "AB"
		}
		return "B"
	case "JMP", "JMZ", "JMN", "DJN", "SPL":
		if !aImm {
			return "B"
		}
	}
	return ""
}

// retSet: constant first results of a reader's success paths.
func retSet(w *World, fn *ssa.Function) (uint64, bool) {
	return retSetBound(w, fn, nil)
}

func retSetBound(w *World, fn *ssa.Function, binds map[*ssa.Parameter]*T) (uint64, bool) {
	paths, err := pathsBound(w, fn, binds)
	if err != nil {
		return 0, false
	}
	var s uint64
	for _, p := range paths {
		if p.End == "ret" && len(p.Ret) == 2 {
			if a, b := stripConv(p.Ret[0]), stripConv(p.Ret[1]); a.Op == "ext" && b.Op == "ext" && a.C == 1 && b.C == 2 && a.A[0].Key() == b.A[0].Key() {
				// return g(s, consts...)
				if g, _, ok := delegated(w, fn, p); ok {
					if gs, ok := retSetBound(w, g, delegateBinds(g, p)); ok {
						s |= gs
						continue
					}
				}
				return 0, false
			}
		}
		if p.End == "ret" && len(p.Ret) == 2 && p.Ret[1].Op == "nil" {
			if c := stripConv(p.Ret[0]); c.IsConst() {
				s |= 1 << uint(c.C)
				continue
			}
			// a map the package initialiser fills: any of its values
			if lk := mapLookupOf(p.Ret[0]); lk != nil {
				if ents, isTable := w.roInitMap(lk.A[0]); isTable {
					allConst := true
					for _, en := range ents {
						if v := stripConv(en.val); v.IsConst() && v.C >= 0 && v.C < 64 {
							s |= 1 << uint(v.C)
						} else {
							allConst = false
						}
					}
					if allConst {
						continue
					}
				}
			}
			// the value read by another reader, possibly narrowed by tests on it
			g, set, ok := delegated(w, fn, p)
			if !ok {
				return 0, false
			}
			gs, ok := retSetBound(w, g, delegateBinds(g, p))
			if !ok {
				return 0, false
			}
			s |= gs & set
		}
	}
	return s, true
}

func funcByKey(w *World, key string) *ssa.Function {
	for _, f := range libFuncs(w) {
		if fnKey(f) == key {
			return f
		}
	}
	return nil
}

// delegated: the success path p of reader fn returns the first result of
// another library reader g applied to fn's own input; set is the refinement
// the path's tests put on that result.
// delegateBinds: the constant arguments (beyond the input string) that path p
// of fn passes to the reader g it delegates to, as parameter bindings.
func delegateBinds(g *ssa.Function, p *Path) map[*ssa.Parameter]*T {
	x := stripConv(p.Ret[0])
	if !(x.Op == "ext" && x.A[0].Op == "call") {
		return nil
	}
	binds := map[*ssa.Parameter]*T{}
	for i, a := range x.A[0].A {
		if i == 0 || i >= len(g.Params) {
			continue
		}
		if c := stripConv(a); c.IsConst() || c.Op == "str" {
			binds[g.Params[i]] = c
		}
	}
	if len(binds) == 0 {
		return nil
	}
	return binds
}

// pathsBound: the paths of fn with some parameters bound to constants.
func pathsBound(w *World, fn *ssa.Function, binds map[*ssa.Parameter]*T) ([]*Path, error) {
	if len(binds) == 0 {
		return w.Paths(fn)
	}
	e := &Explorer{W: w, Fn: fn, MaxPaths: 200000, Bind: binds}
	return e.Run()
}

func delegated(w *World, fn *ssa.Function, p *Path) (g *ssa.Function, set uint64, ok bool) {
	v := p.Ret[0]
	x := stripConv(v)
	if !(x.Op == "ext" && x.C == 1 && x.A[0].Op == "call" && len(x.A[0].A) >= 1) {
		return nil, 0, false
	}
	g = funcByKey(w, x.A[0].S)
	if g == nil || g == fn {
		return nil, 0, false
	}
	arg := stripConv(x.A[0].A[0])
	if arg.Op == "call" && arg.S == "strings.ToLower" && len(arg.A) == 1 {
		arg = stripConv(arg.A[0])
	}
	if arg.Op != "p" {
		return nil, 0, false
	}
	set = ^uint64(0)
	for k, st := range p.Sets {
		if stripEpoch(p.SetTerms[k]).Key() == stripEpoch(v).Key() || stripEpoch(p.SetTerms[k]).Key() == stripEpoch(x).Key() {
			set = st
		}
	}
	return g, set, true
}

func ruleTabLegal88(w *World, r *RuleResult) {
	fn := Asm(w).Validate88
	if fn == nil {
		r.undecided("anchor", "-", "'88 validator not found")
		return
	}
	rs, msg := enumRegions(w, fn)
	pos := w.Pos(fn.Pos())
	if msg != "" {
		r.undecided("paths", pos, msg)
		return
	}
	ops, modes := paramByType(fn, "OpCode"), paramByType(fn, "AddressMode")
	if len(ops) != 1 || len(modes) != 2 {
		r.undecided("signature", pos, "expected (OpCode, AddressMode, AddressMode)")
		return
	}
	opN, amN, omN := w.EnumValues("OpCode"), w.EnumValues("AddressMode"), w.EnumValues("OpMode")
	// per caller: value sets of the three arguments
	callers := w.CallerRoots(fn)
	if len(callers) == 0 {
		r.bad("callers", pos, "the '88 validator is never called")
		return
	}
	type argSets struct{ op, am, bm uint64 }
	setsOf := map[*ssa.Function]*argSets{}
	allOps, _ := w.enumDomain(w.NamedType("OpCode"))
	allModes, _ := w.enumDomain(w.NamedType("AddressMode"))
	for _, caller := range callers {
		paths, err := w.Paths(caller)
		if err != nil {
			r.undecided(caller.Name(), w.Pos(caller.Pos()), err.Error())
			continue
		}
		as := setsOf[caller]
		if as == nil {
			as = &argSets{}
			setsOf[caller] = as
		}
		valueSet := func(t *T, all uint64) uint64 {
			t = stripConv(t)
			if t.IsConst() {
				return 1 << uint(t.C)
			}
			if t.Op == "ext" && t.C == 1 && t.A[0].Op == "call" {
				for _, f := range libFuncs(w) {
					if fnKey(f) == t.A[0].S {
						if s, ok := retSet(w, f); ok {
							return s
						}
					}
				}
			}
			return all
		}
		for _, p := range paths {
			for i := range p.Events {
				e := &p.Events[i]
				if e.Kind == "call" && e.Callee == fn {
					as.op |= valueSet(e.Args[0], allOps)
					as.am |= valueSet(e.Args[1], allModes)
					as.bm |= valueSet(e.Args[2], allModes)
				}
			}
		}
	}
	var cs []*ssa.Function
	for c := range setsOf {
		cs = append(cs, c)
	}
	sort.Slice(cs, func(i, j int) bool { return cs[i].Name() < cs[j].Name() })
	is88mode := map[string]bool{"IMMEDIATE": true, "DIRECT": true, "B_INDIRECT": true, "B_DECREMENT": true}
	for _, caller := range cs {
		as := setsOf[caller]
		// (1) only '88 addressing modes may reach the validator from this caller
		var foreign []string
		var mask88 uint64
		for v, n := range amN {
			if is88mode[n] {
				mask88 |= 1 << uint(v)
			}
		}
		for _, v := range bitsOf((as.am | as.bm) &^ mask88) {
			foreign = append(foreign, modeSym(amN[v]))
		}
		sort.Strings(foreign)
		accepts := false
		for _, ov := range bitsOf(as.op) {
			for _, av := range bitsOf(as.am) {
				for _, bv := range bitsOf(as.bm) {
					if is88mode[amN[av]] && is88mode[amN[bv]] {
						continue
					}
					got := lookupRegion(rs, map[string]int64{ops[0]: ov, modes[0]: av, modes[1]: bv})
					if len(got) == 1 && len(got[0].ret) == 2 && got[0].ret[1].Op == "nil" {
						accepts = true
					}
				}
			}
		}
		r.check(len(foreign) == 0 || !accepts, caller.Name()+"/only-88-modes", w.Pos(caller.Pos()), "only # $ @ < can reach the '88 validator from here (or it rejects the others)", fmt.Sprintf("ICWS'94-only addressing modes %v reach the '88 validator from %s and it accepts them: e.g. 'mov *1, }2' is accepted under ICWS'88", foreign, caller.Name()))
		for _, ov := range bitsOf(as.op) {
			for _, av := range bitsOf(as.am & mask88) {
				for _, bv := range bitsOf(as.bm & mask88) {
					on, an, bn := opN[ov], amN[av], amN[bv]
					key := fmt.Sprintf("%s/%s/%s,%s", caller.Name(), on, an, bn)
					got := lookupRegion(rs, map[string]int64{ops[0]: ov, modes[0]: av, modes[1]: bv})
					if len(got) != 1 {
						r.bad(key, pos, fmt.Sprintf("%d decision paths cover this combination", len(got)))
						continue
					}
					ret := got[0].ret
					accepted := len(ret) == 2 && ret[1].Op == "nil"
					want := legal88(on, an, bn)
					switch {
					case accepted && want == "":
						r.bad(key, pos, fmt.Sprintf("'88 validator accepts %s %s,%s, which ICWS'88 does not allow", on, modeSym(an), modeSym(bn)))
					case accepted && ret[0].IsConst() && omN[ret[0].C] != want:
						r.bad(key, pos, fmt.Sprintf("implied modifier for %s %s,%s is .%s; ICWS'88 semantics correspond to .%s", on, modeSym(an), modeSym(bn), omN[ret[0].C], want))
					case !accepted && want != "":
						r.bad(key, pos, fmt.Sprintf("'88 validator rejects %s %s,%s, which ICWS'88 allows", on, modeSym(an), modeSym(bn)))
					default:
						r.ok(key, pos, "agrees with ICWS'88 ("+map[bool]string{true: "." + want, false: "rejected"}[accepted]+")")
					}
				}
			}
		}
	}
}

func modeSym(n string) string {
	return map[string]string{"IMMEDIATE": "#", "DIRECT": "$", "A_INDIRECT": "*", "B_INDIRECT": "@", "A_DECREMENT": "{", "B_DECREMENT": "<", "A_INCREMENT": "}", "B_INCREMENT": ">"}[n]
}

var mnemonicWords = map[string]bool{"dat": true, "mov": true, "add": true, "sub": true, "mul": true, "div": true, "mod": true, "jmp": true, "jmz": true, "jmn": true, "djn": true, "cmp": true, "seq": true, "sne": true, "slt": true, "spl": true, "nop": true,
	"equ": true, "org": true, "end": true, "for": true, "rof": true, "a": true, "b": true, "ab": true, "ba": true, "f": true, "x": true, "i": true}

func ruleTabCase(w *World, r *RuleResult) {
	d := newDedup(r)
	for _, fn := range libRoots(w) {
		paths, err := w.Paths(fn)
		if err != nil {
			continue
		}
		for _, p := range paths {
			for _, cd := range p.Conds {
				a := cd.Atom
				if a.Op != "eq" || a.A[1].Op != "str" {
					continue
				}
				lit := a.A[1].S
				if !mnemonicWords[strings.ToLower(lit)] {
					continue
				}
				x := a.A[0]
				lowered := x.contains(func(t *T) bool { return t.Op == "call" && (t.S == "strings.ToLower" || t.S == "strings.EqualFold") })
				key := fmt.Sprintf("%s/==%q", fn.Name(), lit)
				if lit != strings.ToLower(lit) {
					d.add(false, key, w.Pos(cd.Pos), "", fmt.Sprintf("mnemonic literal %q is not lower case, so the lower-cased source text can never match it", lit))
					continue
				}
				d.add(lowered, key, w.Pos(cd.Pos), "compared with lower-cased source text", fmt.Sprintf("%s compares source text with %q case-sensitively: upper-case spellings take a different path", fn.Name(), lit))
			}
		}
	}
	d.flush()
}

// globalStringTable evaluates a package-level `var t = [...]string{...}`,
// `[]string{...}` or `map[Enum]string{...}` literal from the syntax tree.
func globalStringTable(w *World, name string) (map[int64]string, string) {
	for _, file := range w.Lib.Syntax {
		for _, decl := range file.Decls {
			gd, ok := decl.(*ast.GenDecl)
			if !ok {
				continue
			}
			for _, spec := range gd.Specs {
				vs, ok := spec.(*ast.ValueSpec)
				if !ok {
					continue
				}
				for i, id := range vs.Names {
					if id.Name != name || i >= len(vs.Values) {
						continue
					}
					cl, ok := vs.Values[i].(*ast.CompositeLit)
					if !ok {
						return nil, "table " + name + " is not initialised by a composite literal"
					}
					out := map[int64]string{}
					next := int64(0)
					for _, el := range cl.Elts {
						val := el
						if kv, ok := el.(*ast.KeyValueExpr); ok {
							tv, ok := w.Lib.TypesInfo.Types[kv.Key]
							if !ok || tv.Value == nil {
								return nil, "table " + name + " has a non-constant key"
							}
							k, ok := constant.Int64Val(tv.Value)
							if !ok {
								return nil, "table " + name + " has a non-integer key"
							}
							next = k
							val = kv.Value
						}
						tv, ok := w.Lib.TypesInfo.Types[val]
						if !ok || tv.Value == nil || tv.Value.Kind() != constant.String {
							return nil, "table " + name + " has a non-constant entry"
						}
						out[next] = constant.StringVal(tv.Value)
						next++
					}
					// the table must never be written (GLOBAL.ro covers writers)
					return out, ""
				}
			}
		}
	}
	return nil, "package-level table " + name + " not found"
}
