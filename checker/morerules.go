package main

// Second-round rules: FIFO discipline of the queue, loader field wiring,
// symbol-table wiring, expression-evaluation wiring, termination of the cycle
// detector, one-time emission of FOR block labels.

import (
	"fmt"
	"strings"

	"golang.org/x/tools/go/ssa"
)

func init() {
	register(&Rule{Name: "QUEUE.fifo", Min: 4, Doc: "Push writes at the back cursor, Pop/Next/Values read from the front cursor; both advance by one modulo the capacity", Run: ruleQueueFifo})
	register(&Rule{Name: "WIRE.load", Min: 10, Doc: "load-file instruction = (op, modifier, A-mode, A, B-mode, B) read from fields 0..4 in this order; dialect dispatch", Run: ruleWireLoad})
	register(&Rule{Name: "SYMS.wire", Min: 6, Doc: "symbol tables: labels -> code line of their instruction, EQU -> its tokens, ORG/END -> start expression; code-line counter; tables built before assembling", Run: ruleSymsWire})
	register(&Rule{Name: "EXPR.eval", Min: 4, Doc: "expression evaluation: tokens concatenated in order after sign folding, booleans map to 1/0, integer result parsed from the evaluator's value", Run: ruleExprEval})
	register(&Rule{Name: "CYCLE.detect", Min: 2, Doc: "the EQU cycle detector only recurses into nodes not yet on its path (so it terminates) and reports a revisit as a cycle", Run: ruleCycleDetect})
	register(&Rule{Name: "FOR.labels", Min: 2, Doc: "mangled block labels are emitted once, before the first body instruction", Run: ruleForLabels})
}

func ruleQueueFifo(w *World, r *RuleResult) {
	c := newSimCtx(w)
	q := resolveQueue(w, c)
	if q.err != "" || c.a.Push == nil || c.a.Pop == nil {
		r.undecided("anchors", "-", "queue unresolved: "+q.err)
		return
	}
	isBuf := func(t *T) (*T, bool) {
		t = stripConv(t)
		if t.Op == "elem" {
			if _, ok := selOf(t.A[0], q.buf); ok {
				return stripConv(t.A[1]), true
			}
		}
		return nil, false
	}
	cursorOf := func(t *T) string {
		t = stripConv(t)
		for _, cf := range q.cursors {
			if _, ok := selOf(t, cf); ok {
				return cf
			}
		}
		return ""
	}
	advances := func(p *Path, cur string) bool {
		for _, e := range p.Events {
			if e.Kind == "store" && e.LV.Op == "sel" && e.LV.S == cur {
				// the old value of the cursor is the selector as loaded before this store
				// (it occurs in the stored value, or only in the wrap test when 0 is stored)
				found := false
				try := func(t *T) bool {
					if !found && cursorOf(t) == cur && q.ringSucc(p, t, e.Val) {
						found = true
					}
					return !found
				}
				e.Val.walk(try)
				for _, cd := range p.Conds {
					cd.Atom.walk(try)
				}
				if found {
					return true
				}
			}
		}
		return false
	}
	back, front := "", ""
	computedFrom := "" // Push derives the back position from this front cursor and the length
	// Push
	pp, _ := w.Paths(c.a.Push)
	prm := c.a.Push.Params[1].Name()
	for _, p := range pp {
		for _, e := range p.Events {
			if e.Kind == "store" {
				if idx, ok := isBuf(e.LV); ok {
					cur := cursorOf(idx)
					good := cur != "" && stripConv(e.Val).Op == "p" && stripConv(e.Val).S == prm && advances(p, cur)
					back = cur
					// or no stored back cursor at all: the slot (front + length) % capacity, with the length then growing
					if cur == "" && idx.Op == "rem" && q.isCap(idx.A[1]) {
						l := linearOf(idx.A[0])
						fr, hasLen := "", false
						for k, a := range l.Atom {
							if l.Coef[k] != 1 {
								continue
							}
							if cu := cursorOf(a); cu != "" {
								fr = cu
							} else if _, ok := selOf(a, q.length); ok {
								hasLen = true
							}
						}
						grows := false
						for _, e2 := range p.Events {
							if e2.Kind == "store" {
								if _, ok := selOf(e2.LV, q.length); ok && linearOf(e2.Val).Const == 1 {
									grows = true
								}
							}
						}
						if fr != "" && hasLen && len(l.Atom) == 2 && l.Const == 0 && grows && stripConv(e.Val).Op == "p" && stripConv(e.Val).S == prm {
							good = true
							back = "(" + fr + "+length)"
							computedFrom = fr
						}
					}
					r.check(good, "Push/back", c.posOf(&e), "new task stored at the back of the ring (a back cursor that then advances by one, or front + length), modulo the capacity", "Push stores "+e.Val.Show()+" at "+idx.Show()+" without (store the argument at the back position, advance it by one modulo the capacity)")
				}
			}
		}
	}
	// Pop
	pop, _ := w.Paths(c.a.Pop)
	for _, p := range pop {
		if p.End != "ret" || len(p.Ret) != 2 || !(p.Ret[1].Op == "nil" || p.Ret[1].IsConstVal(1)) {
			continue // the success return: nil error, or ok == true
		}
		idx, ok := isBuf(p.Ret[0])
		cur := ""
		if ok {
			cur = cursorOf(idx)
		}
		// the value must be read before the cursor advances: its index is the cursor as loaded at entry
		good := ok && cur != "" && advances(p, cur)
		r.check(good, "Pop/front", w.Pos(c.a.Pop.Pos()), "oldest task taken at the front cursor, which then advances by one modulo the capacity", "Pop returns "+p.Ret[0].Show()+", not the element at a cursor that it then advances by one")
		front = cur
	}
	if computedFrom != "" && computedFrom != front {
		back = "" // the back position is not derived from the cursor Pop consumes from
	}
	r.check(back != "" && front != "" && back != front, "distinct-cursors", w.Pos(c.a.Push.Pos()), "Push and Pop use different cursors ("+back+" / "+front+"): first in, first out", "Push and Pop use the same cursor ("+back+"): last in, first out")
	// peeking accessors read relative to the front cursor
	for _, fn := range queueMethods(w, c) {
		if fn == c.a.Push || fn == c.a.Pop {
			continue
		}
		ps, _ := w.Paths(fn)
		for _, p := range ps {
			for i := range p.Events {
				e := &p.Events[i]
				if e.Kind != "load" {
					continue
				}
				idx, ok := isBuf(e.LV)
				if !ok {
					continue
				}
				good := cursorOf(idx) == front && front != "" // the front element itself
				if idx.Op == "rem" {
					if q.isCap(idx.A[1]) {
						l := linearOf(idx.A[0])
						for _, a := range l.Atom {
							if cursorOf(a) == front && front != "" {
								good = true
							}
						}
						for _, a := range l.Atom {
							if cu := cursorOf(a); cu != "" && cu != front {
								good = false
							}
						}
					}
				}
				if idx.Op == "loopvar" && front != "" {
					// a position that starts at the front cursor and takes the ring successor every iteration
					if init, steps, ok := loopVarSteps(w, fn, p, idx); ok && cursorOf(init) == front && len(steps) > 0 {
						good = true
						for _, st := range steps {
							good = good && q.ringSucc(st.p, idx, st.v)
						}
					}
				}
				// an element copied into position j of an output list must itself move with the loop
				for k := range p.Events {
					st := &p.Events[k]
					if st.Kind == "store" && st.LV.Op == "elem" && st.Val.Key() == e.LV.Key() && st.LV.A[1].contains(func(x *T) bool { return x.Op == "loopvar" }) {
						if !idx.contains(func(x *T) bool { return x.Op == "loopvar" }) {
							good = false
						}
					}
				}
				r.check(good, fn.Name()+"/relative-to-front", c.posOf(e), "reads (front + n) % capacity", fn.Name()+" reads the buffer at "+idx.Show()+", not relative to the front cursor")
			}
		}
	}
}

func ruleWireLoad(w *World, r *RuleResult) {
	aa := Asm(w)
	d := newDedup(r)
	loaders := loaderFuncs(w)
	if len(loaders) < 2 {
		r.undecided("loaders", "-", fmt.Sprintf("expected two load-file readers, found %d", len(loaders)))
	}
	fieldIdx := func(t *T) int64 {
		// t == strings.Fields(...)[k]
		t = stripConv(t)
		if t.Op == "elem" && stripConv(t.A[1]).IsConst() {
			if b := stripConv(t.A[0]); b.Op == "call" && b.S == "strings.Fields" {
				return stripConv(t.A[1]).C
			}
		}
		return -1
	}
	resOf := func(t *T, fn *ssa.Function, idx int64) (*T, bool) {
		t = stripConv(t)
		if fn != nil && t.Op == "ext" && t.C == idx && t.A[0].Op == "call" && t.A[0].S == fnKey(fn) {
			return t.A[0], true
		}
		return nil, false
	}
	for _, fn := range loaders {
		paths, err := w.Paths(fn)
		if err != nil {
			r.undecided(fn.Name(), w.Pos(fn.Pos()), err.Error())
			continue
		}
		var sizeParam string
		for _, p := range fn.Params {
			if typeName(p.Type()) == "Address" {
				sizeParam = p.Name()
			}
		}
		n := 0
		for _, p := range paths {
			for i := range p.Events {
				e := &p.Events[i]
				if e.Kind != "builtin" || e.Method != "append" || len(e.Args) != 2 {
					continue
				}
				for _, x := range elementsOf(p, e.Args[1]) {
					if x.Op != "struct" || x.S != "Instruction" {
						continue
					}
					n++
					pos := w.Pos(instrPosE(e))
					get := func(f string) *T { return structField(x, f) }
					// operands
					for _, o := range []struct {
						mode, val string
						fm, fv    int64
					}{{"AMode", "A", 1, 2}, {"BMode", "B", 3, 4}} {
						okM := false
						for _, rd := range []*ssa.Function{aa.ModeReader, aa.ModeReader88} {
							if c, ok := resOf(get(o.mode), rd, 1); ok && len(c.A) == 1 && fieldIdx(c.A[0]) == o.fm {
								okM = true
							}
						}
						d.add(okM, fn.Name()+"/"+o.mode, pos, fmt.Sprintf("%s read from field %d", o.mode, o.fm), fmt.Sprintf("%s of a loaded instruction is %s, not the mode reader applied to field %d", o.mode, get(o.mode).Show(), o.fm))
						okV := false
						if c, ok := resOf(get(o.val), aa.ParseAddress, 1); ok && len(c.A) == 2 && fieldIdx(c.A[0]) == o.fv {
							sz := stripConv(c.A[1])
							okV = sz.Op == "p" && sz.S == sizeParam
						}
						d.add(okV, fn.Name()+"/"+o.val, pos, fmt.Sprintf("%s parsed from field %d modulo the core size", o.val, o.fv), fmt.Sprintf("%s of a loaded instruction is %s, not the field parser applied to (field %d, core size)", o.val, get(o.val).Show(), o.fv))
					}
					// opcode / modifier
					opT, omT := get("Op"), get("OpMode")
					if c1, ok := resOf(opT, aa.Op94, 1); ok {
						c2, ok2 := resOf(omT, aa.Op94, 2)
						d.add(ok2 && c1.Key() == c2.Key() && fieldIdx(c1.A[0]) == 0, fn.Name()+"/op.modifier", pos, "opcode and modifier read together from field 0", "opcode and modifier of a loaded instruction do not both come from field 0")
					} else if c1, ok := resOf(opT, aa.OpReader88, 1); ok {
						c2, ok2 := resOf(omT, aa.Validate88, 1)
						good := ok2 && fieldIdx(c1.A[0]) == 0 && len(c2.A) == 3 && c2.A[0].Key() == opT.Key() && c2.A[1].Key() == get("AMode").Key() && c2.A[2].Key() == get("BMode").Key()
						d.add(good, fn.Name()+"/op+validated-modifier", pos, "'88: opcode from field 0, modifier = validate(opcode, A-mode, B-mode) of this instruction", "'88 loaded instruction: the modifier is not the validator applied to this instruction's (opcode, A-mode, B-mode)")
					} else {
						d.add(false, fn.Name()+"/opcode", pos, "", "opcode of a loaded instruction is "+opT.Show()+", not an opcode reader applied to field 0")
					}
				}
			}
		}
		if n == 0 {
			r.bad(fn.Name()+"/no-instruction", w.Pos(fn.Pos()), "the reader never appends an instruction")
		}
	}
	// dialect dispatch
	if pl := w.LibFunc("ParseLoadFile"); pl != nil {
		ps, _ := w.Paths(pl)
		sm := map[string]int64{}
		for v, n := range w.EnumValues("SimulatorMode") {
			sm[n] = v
		}
		for _, p := range ps {
			if p.End != "ret" {
				continue
			}
			is88 := hasCond(p, func(a *T, v bool) bool { return a.Op == "eq" && v && a.A[1].IsConstVal(sm["ICWS88"]) })
			v := stripConv(p.Ret[0])
			callee := ""
			size := ""
			if v.Op == "ext" && v.A[0].Op == "call" {
				callee = v.A[0].S
				if len(v.A[0].A) == 2 {
					size = stripConv(v.A[0].A[1]).Show()
				}
			}
			uses88 := false
			for _, l := range loaders {
				if fnKey(l) == callee {
					// the '88 reader is the one using the '88 opcode reader
					if callsWithin(w, l, aa.OpReader88) {
						uses88 = true
					}
				}
			}
			d.add(callee != "" && uses88 == is88 && strings.HasSuffix(size, ".CoreSize"), "ParseLoadFile/"+map[bool]string{true: "ICWS88", false: "other"}[is88], w.Pos(pl.Pos()), "dialect selects the reader; the configured core size is passed", "ParseLoadFile dispatches "+map[bool]string{true: "ICWS'88", false: "non-'88"}[is88]+" input to "+callee+" with size "+size)
		}
	}
	d.flush()
}

func ruleSymsWire(w *World, r *RuleResult) {
	aa := Asm(w)
	if aa.LoadSymbols == nil || aa.Compile == nil || aa.AssembleLine == nil {
		r.undecided("anchors", "-", "symbol loader / compile / line assembler not resolved")
		return
	}
	d := newDedup(r)
	lt := map[string]int64{}
	for v, n := range w.EnumValues("lineType") {
		lt[n] = v
	}
	ps, err := w.Paths(aa.LoadSymbols)
	if err != nil {
		r.undecided("paths", w.Pos(aa.LoadSymbols.Pos()), err.Error())
		return
	}
	pos := w.Pos(aa.LoadSymbols.Pos())
	isLineField := func(t *T, f string) (*T, bool) {
		t = stripConv(t)
		if t.Op == "sel" && t.S == f && t.A[0].Op == "elem" {
			return t.A[0], true
		}
		return nil, false
	}
	for _, p := range ps {
		var line *T
		typ := int64(-1)
		for k, set := range p.Sets {
			if ln, ok := isLineField(p.SetTerms[k], "typ"); ok {
				if bs := bitsOf(set); len(bs) == 1 {
					line, typ = ln, bs[0]
				}
			}
		}
		word := ""
		for _, cd := range p.Conds {
			if cd.Atom.Op == "eq" && cd.Val && cd.Atom.A[1].Op == "str" && cd.Atom.A[0].Op == "call" && cd.Atom.A[0].S == "strings.ToLower" {
				word = cd.Atom.A[1].S
			}
		}
		for i := range p.Events {
			e := &p.Events[i]
			switch e.Kind {
			case "mapupdate":
				m := stripConv(e.LV)
				key := stripConv(e.Args[0])
				if key.Op == "str" {
					continue // predefined constants
				}
				isLabel := key.Op == "elem" && stripConv(key.A[0]).Op == "sel" && stripConv(key.A[0]).S == "labels"
				switch {
				case m.Op == "sel" && m.S == "values":
					_, okv := isLineField(e.Val, "a")
					d.add(isLabel && okv && word == "equ" && typ == lt["linePseudoOp"], "equ/value", pos, "each label of an EQU line is bound to that line's expression tokens", "the EQU table is filled with "+e.Val.Show()+" under '"+word+"'")
				case m.Op == "sel" && m.S == "labels":
					if typ == lt["lineInstruction"] {
						_, okc := isLineField(e.Val, "codeLine")
						d.add(isLabel && okc, "label/instruction", pos, "a label on an instruction line is bound to that line's code-line index", "a label on an instruction line is bound to "+e.Val.Show()+", not the line's own code-line index")
					} else {
						v := stripConv(e.Val)
						d.add(isLabel && word == "end" && v.Op == "loopvar", "label/end", pos, "a label on END is bound to the number of instructions so far", "a label on a pseudo-op line is bound to "+e.Val.Show())
					}
				}
			case "store":
				if e.LV.Op == "sel" && e.LV.S == "startExpr" {
					_, oka := isLineField(e.Val, "a")
					good := oka && (word == "org" || word == "end")
					if word == "end" {
						good = good && hasCond(p, func(a *T, v bool) bool {
							return a.Op == "lt" && v && a.A[0].IsConstVal(0) && stripConv(a.A[1]).Op == "len"
						})
					}
					d.add(good, "start/"+word, pos, "ORG (and END with an argument) set the start expression", "the start expression is set to "+e.Val.Show()+" under '"+word+"'")
				}
			case "backedge":
				// the pseudo-line counter advances exactly on instruction lines
				if len(e.Args) == 2 && line != nil {
					l := linearOf(e.Args[0])
					inc := l.Const == 1 && len(l.Coef) == 1
					same := l.Const == 0 && len(l.Coef) == 1
					if typ == lt["lineInstruction"] {
						d.add(inc, "counter/instruction", pos, "instruction counter advances on an instruction line", "the instruction counter does not advance by one on an instruction line")
					} else if typ >= 0 {
						d.add(same, "counter/other", pos, "instruction counter unchanged on other lines", "the instruction counter changes on a non-instruction line")
					}
				}
			}
		}
	}
	// parser: code-line counter
	var counterStores, typStores int
	for _, m := range machines(w) {
		for _, fn := range append(append([]*ssa.Function(nil), m.states...), m.helpers...) {
			pps, _ := w.Paths(fn)
			seenC, seenT := false, false
			for _, p := range pps {
				for i := range p.Events {
					e := &p.Events[i]
					if e.Kind != "store" || e.LV.Op != "sel" {
						continue
					}
					if e.LV.S == "codeLine" && e.LV.A[0].Op == "deref" {
						// parser's own counter
						l := linearOf(e.Val)
						good := l.Const == 1 && len(l.Coef) == 1
						// and the line got the old value first
						got := false
						for j := 0; j < i; j++ {
							e2 := &p.Events[j]
							if e2.Kind == "store" && e2.LV.Op == "sel" && e2.LV.S == "codeLine" && e2.LV.A[0].Op == "sel" {
								for _, a := range l.Atom {
									if stripEpoch(e2.Val).Key() == stripEpoch(a).Key() {
										got = true
									}
								}
							}
						}
						d.add(good && got, fn.Name()+"/code-line++", w.Pos(instrPosE(e)), "the current line takes the counter, then the counter advances by one", "code-line counter update in "+fn.Name()+" is not (line.codeLine = counter; counter++)")
						seenC = true
					}
					if e.LV.S == "typ" && e.Val.IsConstVal(lt["lineInstruction"]) && typeName(e.LV.Ty) == "lineType" {
						seenT = true
					}
				}
			}
			if seenC {
				counterStores++
			}
			if seenT {
				typStores++
				d.add(seenC, fn.Name()+"/instruction-lines-counted", w.Pos(fn.Pos()), "the state that marks a line as an instruction also counts it", fn.Name()+" marks a line as an instruction without advancing the code-line counter")
			}
		}
	}
	d.add(counterStores == 1 && typStores == 1, "parser/single-counting-site", pos, "exactly one state creates instruction lines and counts them", fmt.Sprintf("%d states advance the code-line counter and %d create instruction lines", counterStores, typStores))
	// compile: symbols are loaded before any line is assembled
	cps, _ := w.Paths(aa.Compile)
	for _, p := range cps {
		ld, as := -1, -1
		for i, e := range p.Events {
			if e.Kind == "call" && e.Callee == aa.LoadSymbols && ld < 0 {
				ld = i
			}
			if e.Kind == "call" && e.Callee == aa.AssembleLine && as < 0 {
				as = i
			}
		}
		if as >= 0 {
			d.add(ld >= 0 && ld < as, "compile/symbols-before-assembly", w.Pos(aa.Compile.Pos()), "symbol tables are complete before the first line is assembled (forward references resolve)", "a line is assembled on a path where the symbol tables have not been loaded first")
		}
	}
	d.flush()
}

func ruleExprEval(w *World, r *RuleResult) {
	aa := Asm(w)
	fn := aa.EvalExpr
	if fn == nil {
		r.undecided("anchor", "-", "expression evaluator not found")
		return
	}
	ps, err := w.Paths(fn)
	if err != nil {
		r.undecided("paths", w.Pos(fn.Pos()), err.Error())
		return
	}
	d := newDedup(r)
	pos := w.Pos(fn.Pos())
	for _, p := range ps {
		// string building loop
		if p.End == "backedge" {
			be := p.Events[len(p.Events)-1]
			cats := append([]*T(nil), be.Args...)
			for _, e := range p.Events {
				if e.Kind == "store" && e.LV.Op == "sel" && e.LV.S == "$text" {
					cats = append(cats, e.Val) // the text is accumulated in a builder
				}
			}
			for _, a := range cats {
				if a.Op == "cat" {
					left, right := a.A[0], stripConv(a.A[1])
					good := (left.Op == "loopvar" || (left.Op == "sel" && left.S == "$text")) && right.Op == "sel" && right.S == "val" && right.A[0].Op == "elem" && stripConv(right.A[0].A[1]).contains(func(x *T) bool { return x.Op == "loopvar" })
					// the sequence iterated is f2(f1(expr)) with both rewriting passes
					seq := stripConv(right.A[0].A[0])
					two := seq.Op == "call" && len(seq.A) == 1 && stripConv(seq.A[0]).Op == "call" && len(stripConv(seq.A[0]).A) == 1 && stripConv(stripConv(seq.A[0]).A[0]).Op == "p"
					d.add(good && two, "string/in-order", pos, "expression text = concatenation, in order, of the token texts after both sign-rewriting passes", "the expression text is built as "+a.Show())
				}
			}
		}
		if p.End != "ret" || len(p.Ret) != 2 || p.Ret[1].Op != "nil" {
			continue
		}
		v := stripConv(p.Ret[0])
		isTrue := hasCond(p, func(a *T, val bool) bool { return a.Op == "eq" && val && a.A[1].Op == "str" && a.A[1].S == "true" })
		isFalse := hasCond(p, func(a *T, val bool) bool { return a.Op == "eq" && val && a.A[1].Op == "str" && a.A[1].S == "false" })
		switch {
		case isTrue:
			d.add(v.IsConstVal(1), "bool/true", pos, "true evaluates to 1", "a true comparison evaluates to "+v.Show())
		case isFalse:
			d.add(v.IsConstVal(0), "bool/false", pos, "false evaluates to 0", "a false comparison evaluates to "+v.Show())
		default:
			good := v.Op == "ext" && v.C == 1 && v.A[0].Op == "call" && v.A[0].S == "strconv.ParseInt" && len(v.A[0].A) == 3 && stripConv(v.A[0].A[1]).IsConstVal(10)
			d.add(good, "int/parsed", pos, "integer result = decimal value of the evaluator's result", "the integer result is "+v.Show())
		}
	}
	d.flush()
}

func ruleCycleDetect(w *World, r *RuleResult) {
	aa := Asm(w)
	fn := aa.NodeCycle
	if fn == nil {
		r.undecided("anchor", "-", "recursive cycle-detector node function not found")
		return
	}
	ps, err := w.Paths(fn)
	if err != nil {
		r.undecided("paths", w.Pos(fn.Pos()), err.Error())
		return
	}
	d := newDedup(r)
	if len(fn.Params) < 3 {
		r.undecided("shape", w.Pos(fn.Pos()), "the cycle detector is not the recursive (node, graph, path) walk these clauses describe; its completeness is not decided for this shape")
		return
	}
	node := fn.Params[0].Name()
	visited := fn.Params[2].Name()
	n := 0
	for _, p := range ps {
		for i := range p.Events {
			e := &p.Events[i]
			if e.Kind != "call" || e.Callee != fn {
				continue
			}
			n++
			ref, vis := e.Args[0], e.Args[2]
			// visited passed on = append(visited, node)
			grown := false
			for _, e2 := range p.Events[:i] {
				if e2.Kind == "builtin" && e2.Method == "append" && e2.Res.Key() == vis.Key() && stripConv(e2.Args[0]).Op == "p" && stripConv(e2.Args[0]).S == visited {
					for _, x := range elementsOf(p, e2.Args[1]) {
						if stripConv(x).Op == "p" && stripConv(x).S == node {
							grown = true
						}
					}
				}
			}
			guarded := hasCond(p, func(a *T, v bool) bool {
				return a.Op == "call" && strings.HasPrefix(a.S, "slices.Contains") && !v && len(a.A) == 2 && a.A[0].Key() == vis.Key() && a.A[1].Key() == ref.Key()
			})
			d.add(grown, "recursion/path-grows", w.Pos(instrPosE(e)), "the node is added to the path before descending", "the recursive call does not pass on (path + this node)")
			d.add(guarded, "recursion/not-on-path", w.Pos(instrPosE(e)), "descends only into nodes not already on the path: the depth is bounded by the number of symbols", "the cycle detector descends into a node without first testing that it is not already on the current path: on a cyclic graph it recurses forever")
		}
		if p.End == "ret" && len(p.Ret) == 2 {
			onPath := hasCond(p, func(a *T, v bool) bool { return a.Op == "call" && strings.HasPrefix(a.S, "slices.Contains") && v })
			if onPath {
				d.add(p.Ret[0].IsConstVal(1), "revisit-is-cycle", w.Pos(fn.Pos()), "a node found on the current path is reported as a cycle", "a node already on the path is not reported as a cycle")
			}
		}
	}
	if n == 0 {
		d.add(false, "recursion/none", w.Pos(fn.Pos()), "", "the detector does not descend into referenced symbols")
	}
	// completeness: after a reference turns out acyclic the search goes on with the next reference
	cont := false
	for _, p := range ps {
		if p.End != "backedge" {
			continue
		}
		for _, e := range p.Events {
			if e.Kind == "call" && e.Callee == fn {
				cont = true
			}
		}
	}
	d.add(cont, "all-references", w.Pos(fn.Pos()), "when a reference is acyclic the loop continues with the next one", "the detector returns after examining the first reference of a symbol: a cycle through a later reference (x equ CORESIZE-y, y equ CORESIZE-x) is missed and the expansion that relies on acyclicity never terminates")
	d.flush()
}

func ruleForLabels(w *World, r *RuleResult) {
	m := forMachine(w)
	if m == nil {
		r.undecided("anchor", "-", "FOR expander not found")
		return
	}
	d := newDedup(r)
	found := false
	pendingFlags := map[string]bool{} // boolean fields that guard the emission ("labels not yet written")
	for _, s := range m.states {
		ps, _ := w.Paths(s)
		for _, p := range ps {
			// a send/emit of a token built from an element of forLineLabelsToWrite-like field (a []string field that forFor fills with mangled names)
			for i := range p.Events {
				e := &p.Events[i]
				v, ok := sendOf(w, e)
				if !ok || v.Op != "struct" {
					continue
				}
				val := stripConv(structField(v, "val"))
				if val == nil {
					continue
				}
				switch {
				case val.Op == "elem":
					b := stripConv(val.A[0])
					if b.Op != "sel" || b.A[0].Op != "deref" || !mangledField(w, m, b.S) {
						continue
					}
				case isMangled(p, val):
					// the mangled name computed on the spot; the site that substitutes references inside
					// the body (it compares body tokens with the labels) is WIRE.for's business
					if hasCond(p, func(a *T, vv bool) bool { return strings.Contains(a.Show(), "forContent") }) {
						continue
					}
					for _, cd := range p.Conds {
						if a := stripConv(cd.Atom); a.Op == "sel" && a.A[0].Op == "deref" && cd.Val {
							pendingFlags[a.S] = true
						}
					}
				default:
					continue
				}
				found = true
				// guarded by IsOp on the look-ahead (ranging over the pending list needs no nil test: an empty list emits nothing)
				atOp := hasCond(p, func(a *T, vv bool) bool {
					return a.Op == "call" && vv && strings.HasSuffix(a.S, ".IsOp") && len(a.A) == 1 && m.lookTok(a.A[0])
				})
				d.add(atOp, s.Name()+"/emit-guard", w.Pos(instrPosE(e)), "mangled block labels are emitted (from the pending list) only when the look-ahead is an instruction", "mangled block labels are emitted although the next token is not an opcode")
			}
			// after the emission loop the pending list is cleared on the path that leaves the loop
			for i := range p.Events {
				e := &p.Events[i]
				if e.Kind == "store" && e.LV.Op == "sel" && ((mangledField(w, m, e.LV.S) && e.Val.Op == "nil") || (pendingFlags[e.LV.S] && e.Val.IsConstVal(0))) {
					d.add(true, s.Name()+"/cleared", w.Pos(instrPosE(e)), "pending block labels cleared after emission (emitted once)", "")
				}
			}
		}
	}
	if !found {
		d.add(false, "emit/none", w.Pos(m.run.Pos()), "", "no state emits the mangled block labels")
	}
	// cleared somewhere
	cleared := false
	for _, o := range d.order {
		if strings.HasSuffix(o, "/cleared") {
			cleared = true
		}
	}
	d.add(cleared, "emit/once", w.Pos(m.run.Pos()), "the pending list is cleared after emission", "the pending block-label list is never cleared: the labels would be emitted before every body instruction (redefinition)")
	d.flush()
}

// mangledField: a []string field of the machine that is filled with Sprintf("__for...") results.
// makesMangledList: a function of the module that fills a list with mangled
// names and returns it.
func makesMangledList(w *World, g *ssa.Function) bool {
	if g == nil || len(g.Blocks) == 0 || g.Pkg != w.SLib {
		return false
	}
	gps, _ := w.Paths(g)
	for _, gp := range gps {
		for _, e := range gp.Events {
			if e.Kind == "store" && e.LV.Op == "elem" && stripConv(e.LV.A[0]).Op == "makeslice" && isMangled(gp, e.Val) {
				return true
			}
		}
	}
	return false
}

func mangledField(w *World, m *machine, field string) bool {
	makesMangled := func(g *ssa.Function) bool { return makesMangledList(w, g) }
	for _, s := range m.states {
		ps, _ := w.Paths(s)
		for _, p := range ps {
			for _, e := range p.Events {
				if e.Kind == "store" && e.LV.Op == "sel" && e.LV.S == field && stripConv(e.Val).Op == "call" && makesMangled(w.funcByKey(stripConv(e.Val).S)) {
					return true
				}
				// the list grown by append(field, mangled...) instead of filled by index
				if v := stripConv(e.Val); e.Kind == "store" && e.LV.Op == "sel" && e.LV.S == field && v.Op == "builtin" && v.S == "append" && len(v.A) == 2 {
					if b := stripConv(v.A[0]); b.Op == "sel" && b.S == field {
						for _, x := range elementsOf(p, v.A[1]) {
							if isMangled(p, x) {
								return true
							}
						}
					}
				}
				if e.Kind == "store" && e.LV.Op == "elem" && isMangled(p, e.Val) {
					b := stripConv(e.LV.A[0])
					if b.Op == "sel" && b.S == field {
						return true
					}
					// stored through a local make that is later assigned to the field
					for _, e2 := range p.Events {
						if e2.Kind == "store" && e2.LV.Op == "sel" && e2.LV.S == field && e2.Val.Key() == b.Key() {
							return true
						}
					}
				}
			}
		}
	}
	return false
}

func init() {
	register(&Rule{Name: "SIGN.parity", Min: 1, Doc: "a run of unary signs folds to a sign that depends on the parity of its minus signs", Run: ruleSignParity})
}

// ruleSignParity: the first token-rewriting pass applied by the expression
// evaluator folds runs of unary + and -.  Whatever variable remembers "this run
// is negative" must be updated from its own previous value when a '-' is seen
// (toggle or count); a variable that is merely set cannot encode parity, so
// `1---1` and `1-1` would differ.
func ruleSignParity(w *World, r *RuleResult) {
	aa := Asm(w)
	if aa.EvalExpr == nil {
		r.undecided("anchor", "-", "expression evaluator not found")
		return
	}
	// f1 in f2(f1(expr))
	var f1 *ssa.Function
	ps, _ := w.Paths(aa.EvalExpr)
	for _, p := range ps {
		for _, e := range p.Events {
			if e.Kind == "call" && e.Callee != nil && e.Callee.Pkg == w.SLib && sigIs(e.Callee, []string{"[]token"}, []string{"[]token"}, false) && len(e.Args) == 1 && stripConv(e.Args[0]).Op == "p" && f1 == nil {
				f1 = e.Callee
			}
		}
	}
	if f1 == nil {
		r.undecided("anchor", w.Pos(aa.EvalExpr.Pos()), "sign-folding pass (first []token -> []token function applied to the expression) not found")
		return
	}
	fps, err := w.Paths(f1)
	if err != nil {
		r.undecided("paths", w.Pos(f1.Pos()), err.Error())
		return
	}
	// back edges of the same loop: one taken when the token is '-', the others not
	type be struct {
		hdr   int64
		minus bool
		plus  bool // the token is '+': a sign that must leave the run's sign alone
		args  []*T
		pos   string
	}
	var bes []be
	for _, p := range fps {
		if p.End != "backedge" {
			continue
		}
		last := p.Events[len(p.Events)-1]
		minus, plus := false, false
		pos := w.Pos(f1.Pos())
		for _, cd := range p.Conds {
			if cd.Atom.Op == "eq" && cd.Atom.A[1].Op == "str" && cd.Atom.A[1].S == "-" && cd.Val {
				minus = true
				pos = w.Pos(cd.Pos)
			}
			if cd.Atom.Op == "eq" && cd.Atom.A[1].Op == "str" && cd.Atom.A[1].S == "+" && cd.Val {
				plus = true
			}
		}
		bes = append(bes, be{last.Res.C, minus, plus, last.Args, pos})
	}
	found := false
	d := newDedup(r)
	// unary context: signs are folded only after an operator or an opening parenthesis (after an
	// operand — a number, a name, a closing parenthesis — the sign is binary and must stay)
	tt := tokenTypes(w)
	allowed := uint64(1)<<uint(tt["tokSymbol"]) | uint64(1)<<uint(tt["tokParenL"])
	isTokType := func(t *T) bool { return t != nil && typeName(t.Ty) == "tokenType" }
	// the values of a token type a test lets through
	var trueSet func(t *T) (uint64, bool)
	trueSet = func(t *T) (uint64, bool) {
		t = stripConv(t)
		switch {
		case t.IsConstVal(0):
			return 0, true
		case t.Op == "eq" && isTokType(t.A[0]) && t.A[1].IsConst() && t.A[1].C >= 0 && t.A[1].C < 64:
			return 1 << uint(t.A[1].C), true
		case t.Op == "in" && isTokType(t.A[0]):
			var s uint64
			for _, a := range t.A[1:] {
				if !a.IsConst() || a.C < 0 || a.C >= 64 {
					return 0, false
				}
				s |= 1 << uint(a.C)
			}
			return s, true
		case t.Op == "or" && len(t.A) == 2:
			a, ok1 := trueSet(t.A[0])
			b, ok2 := trueSet(t.A[1])
			return a | b, ok1 && ok2
		}
		return 0, false
	}
	gated, scans := 0, 0
	for _, p := range fps {
		signTest := hasCond(p, func(a *T, v bool) bool {
			return a.Op == "eq" && a.A[1].Op == "str" && (a.A[1].S == "-" || a.A[1].S == "+")
		})
		if !signTest {
			continue
		}
		scans++
		pos := w.Pos(f1.Pos())
		// (a) the type of the previous token is known on the path
		for k, set := range p.Sets {
			if !isTokType(p.SetTerms[k]) {
				continue
			}
			// the token under the sign test itself is not the previous one
			cur := hasCond(p, func(a *T, v bool) bool {
				return a.Op == "eq" && a.A[1].Op == "str" && (a.A[1].S == "-" || a.A[1].S == "+") && stripConv(a.A[0]).Op == "sel" && stripConv(p.SetTerms[k]).Op == "sel" && stripConv(a.A[0]).A[0].Key() == stripConv(p.SetTerms[k]).A[0].Key()
			})
			if cur {
				continue
			}
			gated++
			d.add(set&^allowed == 0, f1.Name()+"/unary-context", pos, "a run of signs is folded only after an operator or an opening parenthesis", "signs are folded after a token that ends an operand (a closing parenthesis, a name): the binary '+' or '-' that follows it is swallowed ('(1+2)+3' becomes '(1+2)3')")
		}
		// (b) ... or remembered in a flag that every iteration sets from the type of the token it emits
		for _, cd := range p.Conds {
			if !cd.Val || cd.Atom.Op != "loopvar" {
				continue
			}
			_, steps, ok := loopVarSteps(w, f1, p, cd.Atom)
			if !ok || len(steps) == 0 {
				continue
			}
			all, known := uint64(0), true
			for _, st := range steps {
				s, ok := trueSet(st.v)
				if !ok {
					// the flag carried over unchanged
					if stripConv(st.v).Key() == cd.Atom.Key() {
						continue
					}
					known = false
				}
				all |= s
			}
			if known && all != 0 {
				gated++
				d.add(all&^allowed == 0, f1.Name()+"/unary-context", pos, "a run of signs is folded only after an operator or an opening parenthesis", "signs are folded after a token that ends an operand (a closing parenthesis, a name): the binary '+' or '-' that follows it is swallowed ('(1+2)+3' becomes '(1+2)3')")
			}
		}
	}
	if scans > 0 && gated == 0 {
		d.add(false, f1.Name()+"/unary-context", w.Pos(f1.Pos()), "", "the sign-folding pass does not look at the token before a run of signs: it cannot tell a unary sign from a binary one")
	}
	for _, m := range bes {
		if !m.minus {
			continue
		}
		for _, o := range bes {
			if o.minus || !o.plus || o.hdr != m.hdr || len(o.args) != len(m.args) {
				continue // compare '-' with '+': the two sign tokens of one run
			}
			for i := range m.args {
				if m.args[i].Key() == o.args[i].Key() {
					continue
				}
				// a loop-carried value that is updated differently on '-': the sign state
				found = true
				dep := m.args[i].contains(func(x *T) bool {
					return x.Op == "loopvar" && o.args[i].contains(func(y *T) bool { return y.Key() == x.Key() })
				})
				d.add(dep, f1.Name()+"/sign-state", m.pos, "on '-' the sign state is computed from its previous value (toggle or count)", "on '-' the run's sign state becomes "+m.args[i].Show()+" regardless of its previous value ("+o.args[i].Show()+" otherwise): any run containing a '-' folds to '-', so an even number of negations (1---1, 2*--1, 5*-x with x equ -1) is evaluated as a negation")
			}
		}
	}
	// ... or one update for both signs: state = state != (tok == "-"), an exclusive or with the test
	if !found {
		for _, p := range fps {
			if p.End != "backedge" {
				continue
			}
			last := p.Events[len(p.Events)-1]
			for _, a := range last.Args {
				a = stripConv(a)
				if a.Op != "not" || len(a.A) != 1 || a.A[0].Op != "eq" {
					continue
				}
				x, y := stripConv(a.A[0].A[0]), stripConv(a.A[0].A[1])
				isMinus := func(t *T) bool {
					return t.Op == "eq" && ((t.A[1].Op == "str" && t.A[1].S == "-") || (t.A[0].Op == "str" && t.A[0].S == "-"))
				}
				if (x.Op == "loopvar" && isMinus(y)) || (y.Op == "loopvar" && isMinus(x)) {
					found = true
					d.add(true, f1.Name()+"/sign-state", w.Pos(f1.Pos()), "the sign state is its previous value exclusive-or 'the token is -'", "")
				}
			}
		}
	}
	if !found {
		d.add(false, f1.Name()+"/sign-state", w.Pos(f1.Pos()), "", "the sign-folding pass has no loop-carried sign state that reacts to '-'")
	}
	d.flush()
}
