package main

import (
	"crypto/sha1"
	"encoding/json"
	"fmt"
	"os"
	"path/filepath"
	"sort"
	"strings"
	"time"
)

type Verdict string

const (
	Discharged Verdict = "discharged"
	Violated   Verdict = "violated"
	Undecided  Verdict = "undecided"
	Advisory   Verdict = "advisory"
)

type Obligation struct {
	Rule    string  `json:"rule"`
	Key     string  `json:"key"` // rule/function/descriptor — never a line number
	Pos     string  `json:"pos"`
	Verdict Verdict `json:"verdict"`
	Reason  string  `json:"reason"`
}

type RuleResult struct {
	Name  string
	Doc   string
	Obs   []*Obligation
	Notes []string
	keys  map[string]int
	Min   int // vacuity guard: minimum number of sites expected
	ran   bool
}

func (r *RuleResult) add(v Verdict, key, pos, reason string) {
	full := r.Name + "/" + key
	if r.keys == nil {
		r.keys = map[string]int{}
	}
	r.keys[full]++
	if n := r.keys[full]; n > 1 {
		full = fmt.Sprintf("%s#%d", full, n)
	}
	r.Obs = append(r.Obs, &Obligation{Rule: r.Name, Key: full, Pos: pos, Verdict: v, Reason: reason})
}

func (r *RuleResult) ok(key, pos, reason string)        { r.add(Discharged, key, pos, reason) }
func (r *RuleResult) bad(key, pos, reason string)       { r.add(Violated, key, pos, reason) }
func (r *RuleResult) undecided(key, pos, reason string) { r.add(Undecided, key, pos, reason) }
func (r *RuleResult) note(format string, a ...any) {
	r.Notes = append(r.Notes, fmt.Sprintf(format, a...))
}

// check adds a discharged or violated obligation depending on cond.
func (r *RuleResult) check(cond bool, key, pos, okReason, badReason string) {
	if cond {
		r.ok(key, pos, okReason)
	} else {
		r.bad(key, pos, badReason)
	}
}

type Rule struct {
	Name string
	Doc  string
	Min  int
	Run  func(w *World, r *RuleResult)
}

type KnownEntry struct {
	Status   string   `json:"status"` // finding | fixed
	Property []string `json:"properties"`
	Key      string   `json:"key"`
	What     string   `json:"what"`
	Commit   string   `json:"commit,omitempty"`
}

type KnownFile struct {
	Entries []KnownEntry `json:"entries"`
}

func loadKnown(path string) (*KnownFile, error) {
	k := &KnownFile{}
	b, err := os.ReadFile(path)
	if err != nil {
		if os.IsNotExist(err) {
			return k, nil
		}
		return nil, err
	}
	if err := json.Unmarshal(b, k); err != nil {
		return nil, err
	}
	return k, nil
}

func (k *KnownFile) finding(prop, key string) *KnownEntry {
	for i := range k.Entries {
		e := &k.Entries[i]
		if e.Status != "finding" || e.Key != key {
			continue
		}
		for _, p := range e.Property {
			if p == prop || p == "*" {
				return e
			}
		}
	}
	return nil
}

type Evidence struct {
	PropertyID  string         `json:"property_id"`
	Tier        string         `json:"tier"`
	Seed        int            `json:"seed"`
	Level       string         `json:"level"`
	Coverage    map[string]any `json:"coverage"`
	Assumptions []string       `json:"assumptions"`
	WallS       float64        `json:"wall_s"`
	Violations  int            `json:"violations"`
}

func keyHash(s string) string {
	h := sha1.Sum([]byte(s))
	return fmt.Sprintf("%x", h[:6])
}

// report prints the run, writes evidence and replay files, returns exit code.
func report(w *World, prop *Property, results []*RuleResult, known *KnownFile, tier string, seed int, evDir string, start time.Time, extra map[string]any) int {
	var all []*Obligation
	ruleRows := []map[string]any{}
	exit := 0
	nViol := 0
	vacuous := []string{}
	for _, r := range results {
		c := map[Verdict]int{}
		for _, o := range r.Obs {
			c[o.Verdict]++
		}
		fmt.Printf("rule %-16s sites=%-4d discharged=%-4d violated=%-3d undecided=%-3d  %s\n", r.Name, len(r.Obs), c[Discharged], c[Violated], c[Undecided], r.Doc)
		for _, n := range r.Notes {
			fmt.Printf("  note [%s] %s\n", r.Name, n)
		}
		ruleRows = append(ruleRows, map[string]any{"rule": r.Name, "doc": r.Doc, "sites": len(r.Obs), "discharged": c[Discharged], "violated": c[Violated], "undecided": c[Undecided], "min_sites": r.Min, "notes": r.Notes})
		if len(r.Obs) < r.Min {
			vacuous = append(vacuous, fmt.Sprintf("%s: %d sites < expected minimum %d", r.Name, len(r.Obs), r.Min))
		}
		all = append(all, r.Obs...)
	}
	replayDir := filepath.Join(evDir, "replay")
	os.MkdirAll(replayDir, 0o755)
	knownHits := 0
	for _, v := range vacuous {
		o := &Obligation{Rule: "VACUITY", Key: "VACUITY/" + strings.SplitN(v, ":", 2)[0], Verdict: Undecided, Reason: "rule matched too few sites (anchor drift?): " + v}
		all = append(all, o)
	}
	var bad []*Obligation
	for _, o := range all {
		if o.Verdict == Violated || o.Verdict == Undecided {
			bad = append(bad, o)
		}
	}
	sort.SliceStable(bad, func(i, j int) bool { return bad[i].Key < bad[j].Key })
	for _, o := range bad {
		if e := known.finding(prop.ID, o.Key); e != nil && o.Verdict == Violated {
			// a listed finding: announced once, in its own format (not as a fresh alarm)
			fmt.Printf("KNOWN-FINDING: property=%s %s (%s at %s)\n", prop.ID, e.What, o.Key, o.Pos)
			knownHits++
			continue
		}
		fmt.Printf("%s: [%s] %s — %s: %s\n", o.Pos, o.Rule, o.Key, o.Verdict, o.Reason)
		nViol++
		rp := filepath.Join(replayDir, fmt.Sprintf("%s-%s.json", prop.ID, keyHash(o.Key)))
		b, _ := json.MarshalIndent(map[string]any{"property": prop.ID, "obligation": o, "root": w.Root, "how": "gmarslint -prop " + prop.ID + " -explain '" + o.Key + "'"}, "", " ")
		os.WriteFile(rp, b, 0o644)
		fmt.Printf("VIOLATION property=%s replay=%s\n", prop.ID, rp)
		exit = 1
	}
	// evidence
	n := len(all)
	nd := 0
	samples := []any{}
	for _, o := range all {
		if o.Verdict == Discharged {
			nd++
		}
	}
	// sample: every violated/undecided, plus a spread of discharged ones
	for _, o := range bad {
		samples = append(samples, o)
	}
	step := 1
	if n > 40 {
		step = n / 40
	}
	for i := (seed % step); i < n; i += step {
		if all[i].Verdict == Discharged {
			samples = append(samples, all[i])
		}
	}
	var fnNames []string
	for _, f := range w.Funcs {
		fnNames = append(fnNames, funcShort(f))
	}
	cov := map[string]any{
		"explanation":            prop.Explain + " Each rule enumerates obligation sites from the type-checked SSA of /repo's current source and discharges each by the stated argument; violated and undecided obligations both fail the check. Decides only the structural clauses listed; see 'not_decided'.",
		"not_decided":            prop.NotDecided,
		"rules":                  ruleRows,
		"obligations":            n,
		"discharged":             nd,
		"known_findings_matched": knownHits,
		"samples":                samples,
		"analysed": map[string]any{
			"root":      w.Root,
			"packages":  []string{w.Lib.PkgPath, w.Cmd.PkgPath},
			"functions": len(w.Funcs),
		},
		"checker_cmd":  "bin/gmarslint -prop " + prop.ID + " -tier " + tier,
		"trusted_base": []string{"go/types", "golang.org/x/tools/go/ssa v0.29.0", "oracle tables in checker/spec*.go transcribed from ICWS'94 draft / ICWS'88"},
	}
	for k, v := range extra {
		cov[k] = v
	}
	ev := Evidence{PropertyID: prop.ID, Tier: tier, Seed: seed, Level: "other", Coverage: cov, Assumptions: prop.Assumes, WallS: time.Since(start).Seconds(), Violations: nViol}
	b, _ := json.MarshalIndent(ev, "", " ")
	os.MkdirAll(evDir, 0o755)
	if err := os.WriteFile(filepath.Join(evDir, prop.ID+".json"), b, 0o644); err != nil {
		fmt.Println("cannot write evidence:", err)
		return 2
	}
	fmt.Printf("property %s tier=%s: %d obligations, %d discharged, %d known findings, %d unlisted violations/undecided\n", prop.ID, tier, n, nd, knownHits, nViol)
	return exit
}
