package main

// Rules added after reading the defects that seeding / refactoring agents
// reported in passing: the end of the input must end a line the way a newline
// does (parser, FOR expander), the symbol scanner and the parser must agree on
// where an EQU value ends, and the symbol scan must see the whole text.

import (
	"fmt"
	"go/ast"
	"go/constant"
	"go/token"
	"go/types"
	"os"
	"sort"
	"strings"

	"golang.org/x/tools/go/ssa"
)

func init() {
	register(&Rule{Name: "EOF.line", Min: 1, Doc: "wherever a newline ends a source line successfully in the parser, the end of the input ends it successfully too", Run: ruleEOFLine})
	register(&Rule{Name: "FOR.eof", Min: 1, Doc: "the state that expands a FOR block stops before expanding only on an error token, never on the end of the input", Run: ruleForEOF})
	register(&Rule{Name: "EQU.agree", Min: 1, Doc: "an EQU value recorded by the symbol scanner never contains a comment, newline or terminal token (what the parser treats as the end of the value)", Run: ruleEquAgree})
	register(&Rule{Name: "SCAN.total", Min: 2, Doc: "the symbol scan stops only at the end of the input, an error, or END: every EQU of the text is visible to FOR counts", Run: ruleScanTotal})
}

func tokenTypes(w *World) map[string]int64 {
	tt := map[string]int64{}
	for v, n := range w.EnumValues("tokenType") {
		tt[n] = v
	}
	return tt
}

// lookSets: for each read position (version) of the look-ahead type on p, the
// set of token types the path's tests leave possible.
func lookSets(w *World, m *machine, p *Path) map[int]uint64 {
	all, _ := w.enumDomain(w.NamedType("tokenType"))
	out := map[int]uint64{}
	for k, s := range p.Sets {
		x := p.SetTerms[k]
		if m.lookTyp(x) {
			v := verOf(x)
			if _, ok := out[v]; !ok {
				out[v] = all
			}
			out[v] &= s
		}
	}
	for _, cd := range p.Conds {
		a := cd.Atom
		if a.Op == "call" && len(a.A) == 1 && m.lookTok(a.A[0]) {
			v := verOf(a.A[0])
			if _, ok := out[v]; !ok {
				out[v] = all
			}
			out[v] &= predSet(w, a.S, cd.Val)
		}
	}
	return out
}

func ruleEOFLine(w *World, r *RuleResult) {
	m := parserMachine(w)
	if m == nil {
		r.undecided("anchor", "-", "parser state machine not found")
		return
	}
	st := m.recvT.Underlying().(*types.Struct)
	var linesF, errF string
	for i := 0; i < st.NumFields(); i++ {
		f := st.Field(i)
		switch typeName(f.Type()) {
		case "[]sourceLine":
			linesF = f.Name()
		case "error":
			errF = f.Name()
		}
	}
	if linesF == "" {
		r.undecided("fields", "-", "parser line list not resolved")
		return
	}
	tt := tokenTypes(w)
	nl, eof := uint64(1)<<uint(tt["tokNewline"]), uint64(1)<<uint(tt["tokEOF"])
	d := newDedup(r)
	appends := func(p *Path) bool {
		for _, e := range p.Events {
			if e.Kind == "store" && e.LV.Op == "sel" && e.LV.S == linesF {
				return true
			}
		}
		return false
	}
	setsErr := func(p *Path) (bool, string) {
		for _, e := range p.Events {
			if e.Kind == "store" && e.LV.Op == "sel" && e.LV.S == errF && e.Val.Op != "nil" {
				return true, w.Pos(instrPosE(&e))
			}
		}
		// or the state hands the error back to the driver
		if p.End == "ret" && len(p.Ret) > 1 && typeName(p.Ret[len(p.Ret)-1].Ty) != "" && p.Ret[len(p.Ret)-1].Op != "nil" && len(p.Events) > 0 {
			if last := p.Ret[len(p.Ret)-1]; last.Op == "call" || last.Op == "ext" || last.Op == "iface" {
				return true, w.Pos(instrPosE(&p.Events[len(p.Events)-1]))
			}
		}
		return false, ""
	}
	n := 0
	for _, s := range m.states {
		ps, err := w.Paths(s)
		if err != nil {
			r.undecided(s.Name(), w.Pos(s.Pos()), err.Error())
			continue
		}
		// read positions at which a newline ends the line successfully, with the paths that do so
		okAt := map[int][]*Path{}
		for _, p := range ps {
			if bad, _ := setsErr(p); bad || !appends(p) {
				continue
			}
			for v, set := range lookSets(w, m, p) {
				if set == nl {
					okAt[v] = append(okAt[v], p)
				}
			}
		}
		// the tests of a path other than those on the look-ahead type read at position v
		others := func(p *Path, v int) map[string]bool {
			out := map[string]bool{}
			for _, cd := range p.Conds {
				a := cd.Atom
				if m.lookTyp(a) && verOf(a) == v {
					continue
				}
				if a.Op == "eq" && m.lookTyp(a.A[0]) && verOf(a.A[0]) == v {
					continue
				}
				out[stripEpoch(a).Key()] = cd.Val
			}
			return out
		}
		var vs []int
		for v := range okAt {
			vs = append(vs, v)
		}
		sort.Ints(vs)
		for _, v := range vs {
			n++
			good := true
			pos := w.Pos(s.Pos())
			for _, p := range ps {
				bad, where := setsErr(p)
				if !bad {
					continue
				}
				set, ok := lookSets(w, m, p)[v]
				if !ok || set&eof == 0 || set&nl != 0 {
					continue
				}
				// the same situation (all other tests agree) in which a newline is accepted
				po := others(p, v)
				for _, q := range okAt[v] {
					same := true
					for k, val := range others(q, v) {
						if pv, ok := po[k]; ok && pv != val {
							same = false
						}
					}
					if same {
						good = false
						pos = where
					}
				}
			}
			d.add(good, fmt.Sprintf("%s/line-end", s.Name()), pos, "where a newline ends the line, the end of the input does too", "a line that a newline would end successfully is rejected when the input ends there instead (e.g. a trailing comment on an unterminated last line): the result depends on the final newline")
		}
	}
	if n == 0 {
		r.undecided("line-end", "-", "no state ends a line on a newline look-ahead")
	}
	d.flush()
}

func ruleForEOF(w *World, r *RuleResult) {
	m := forMachine(w)
	if m == nil {
		r.undecided("anchor", "-", "FOR expander not found")
		return
	}
	tt := tokenTypes(w)
	errBit := uint64(1) << uint(tt["tokError"])
	d := newDedup(r)
	found := false
	for _, s := range m.states {
		ps, err := w.Paths(s)
		if err != nil {
			continue
		}
		// the expanding state: sends elements of a []token field of the machine
		expands := false
		for _, p := range ps {
			for i := range p.Events {
				if v, ok := sendOf(w, &p.Events[i]); ok {
					v.walk(func(x *T) bool {
						if x.Op == "elem" {
							if b := stripConv(x.A[0]); b.Op == "sel" && b.A[0].Op == "deref" && typeName(b.Ty) == "[]token" {
								expands = true
							}
						}
						return true
					})
				}
			}
		}
		if !expands {
			continue
		}
		found = true
		for _, p := range ps {
			if p.End != "ret" || len(p.Ret) < 1 || p.Ret[0].Op != "nil" {
				continue
			}
			// stop without having entered the expansion: only on an error token
			sets := lookSets(w, m, p)
			last, lastV := uint64(0), -1
			for v, set := range sets {
				if v > lastV {
					last, lastV = set, v
				}
			}
			good := lastV >= 0 && last == errBit
			if !good {
				// the decision may have been made by a helper of the machine: `if !f.skipLine() { return nil }`
				for _, cd := range p.Conds {
					a := cd.Atom
					if a.Op != "call" || len(a.A) == 0 {
						continue
					}
					callee := w.funcByKey(a.S)
					if callee == nil || callee.Signature.Recv() == nil || callee.Signature.Results().Len() != 1 {
						continue
					}
					cps, err := w.Paths(callee)
					if err != nil {
						continue
					}
					all, n := true, 0
					for _, cp := range cps {
						if cp.End != "ret" || len(cp.Ret) != 1 || !cp.Ret[0].IsConst() || (cp.Ret[0].C != 0) != cd.Val {
							continue
						}
						n++
						cs := lookSets(w, m, cp)
						cl, clv := uint64(0), -1
						for v, set := range cs {
							if v > clv {
								cl, clv = set, v
							}
						}
						if !(clv >= 0 && cl == errBit) {
							all = false
						}
					}
					if n > 0 && all {
						good = true
					}
				}
			}
			d.add(good, s.Name()+"/early-stop", w.Pos(s.Pos()), "the block is abandoned before expansion only on an error token", "the expanding state stops without expanding the block although the look-ahead is not an error token (e.g. the input ends right after 'rof' without a newline): the block is silently dropped")
		}
	}
	if !found {
		d.add(false, "expanding-state", w.Pos(m.run.Pos()), "", "no state of the FOR expander sends the collected body")
	}
	d.flush()
}

func scannerMachine(w *World) *machine {
	for _, m := range machines(w) {
		ms := w.Prog.MethodSets.MethodSet(types.NewPointer(m.recvT))
		for i := 0; i < ms.Len(); i++ {
			if f := w.Prog.MethodValue(ms.At(i)); f != nil && sigIs(f, nil, []string{"map[string][]token", "bool", "error"}, true) {
				return m
			}
		}
	}
	return nil
}

func init() {
	register(&Rule{Name: "EQU.textual", Min: 2, Doc: "an EQU name is replaced by exactly the tokens of its value, nothing added", Run: ruleEquTextual})
}

// ruleEquTextual: EQU substitution is textual ("x equ 2+3", "x*2" reads
// 2+3*2).  At every site that replaces a name by the token list found for it
// in a symbol table (a map from names to token lists), the iteration that
// found the name appends that list and nothing else to the output.
func ruleEquTextual(w *World, r *RuleResult) {
	d := newDedup(r)
	sites := 0
	for _, fn := range libRoots(w) {
		paths, err := w.Paths(fn)
		if err != nil {
			continue
		}
		for _, p := range paths {
			if p.End != "backedge" {
				continue
			}
			// the successful lookups of this iteration
			var found []*T
			for _, cd := range p.Conds {
				a := cd.Atom
				if cd.Val && a.Op == "ext" && a.C == 2 && len(a.A) == 1 && a.A[0].Op == "lookup" {
					// (the name looked up is the token of this iteration)
					mine := a.A[0].A[1].contains(func(x *T) bool { return x.Op == "loopvar" })
					if mt, ok := a.A[0].A[0].Ty.(*types.Map); ok && mine && typeName(mt.Elem()) == "[]token" {
						found = append(found, a.A[0])
					}
				}
			}
			if len(found) != 1 {
				continue
			}
			val := (&T{Op: "ext", C: 1, A: []*T{found[0]}}).Key()
			good, n, subst := true, 0, false
			var pos *Event
			for i := range p.Events {
				e := &p.Events[i]
				if e.Kind != "builtin" || e.Method != "append" || len(e.Args) != 2 || typeName(e.Args[0].Ty) != "[]token" {
					continue
				}
				n++
				if stripConv(e.Args[1]).Key() != val {
					good = false
				} else {
					subst = true
					pos = e
				}
			}
			if !subst {
				continue // the value is not appended to a token list here: no substitution on this path
			}
			sites++
			d.add(good && n == 1, fn.Name()+"/value-only", w.Pos(instrPosE(pos)), "the iteration that found the name appends its value and nothing else", "where a name is replaced by its EQU value, other tokens are added around it: substitution is no longer textual ('x equ 2+3', 'x*2' must read 2+3*2)")
		}
	}
	if sites == 0 {
		r.undecided("sites", "-", "no loop replaces a name by the token list a symbol table holds for it")
	}
	d.flush()
}

func ruleEquAgree(w *World, r *RuleResult) {
	m := scannerMachine(w)
	if m == nil {
		r.undecided("anchor", "-", "symbol scanner machine not found")
		return
	}
	// the value buffer: the []token field whose contents are stored into the symbol map
	bufs := map[string]bool{}
	for _, s := range m.states {
		ps, _ := w.Paths(s)
		for _, p := range ps {
			for _, e := range p.Events {
				if e.Kind == "mapupdate" && typeName(e.Val.Ty) == "[]token" {
					if v := stripConv(e.Val); v.Op == "sel" && v.A[0].Op == "deref" {
						bufs[v.S] = true
					}
				}
			}
		}
	}
	if len(bufs) == 0 {
		r.undecided("value-buffer", w.Pos(m.states[0].Pos()), "no []token field of the scanner is stored into the symbol map")
		return
	}
	tt := tokenTypes(w)
	g := buildGraph(w, m)
	var names []string
	for b := range bufs {
		names = append(names, b)
	}
	sort.Strings(names)
	for _, b := range names {
		set := g.containerTypes(w, b)
		var bad []string
		for _, n := range []string{"tokComment", "tokNewline", "tokEOF", "tokError"} {
			if set&(1<<uint(tt[n])) != 0 {
				bad = append(bad, n)
			}
		}
		r.check(len(bad) == 0, "value/"+b, w.Pos(m.states[0].Pos()), "EQU values hold no comment, newline or terminal token", "the symbol scanner records "+strings.Join(bad, ", ")+" tokens as part of an EQU value, which the parser treats as the end of the value: 'N equ 3 ; c' works as an operand but fails as a FOR count")
	}
}

func ruleScanTotal(w *World, r *RuleResult) {
	m := scannerMachine(w)
	if m == nil {
		r.undecided("anchor", "-", "symbol scanner machine not found")
		return
	}
	st := m.recvT.Underlying().(*types.Struct)
	errF := ""
	for i := 0; i < st.NumFields(); i++ {
		if typeName(st.Field(i).Type()) == "error" {
			errF = st.Field(i).Name()
		}
	}
	tt := tokenTypes(w)
	term := uint64(1)<<uint(tt["tokEOF"]) | uint64(1)<<uint(tt["tokError"])
	d := newDedup(r)
	for _, s := range m.states {
		ps, err := w.Paths(s)
		if err != nil {
			r.undecided(s.Name(), w.Pos(s.Pos()), err.Error())
			continue
		}
		for _, p := range ps {
			if p.End != "ret" || len(p.Ret) < 1 || !m.isStop(p.Ret[0]) {
				continue
			}
			setsErr := len(p.Ret) > 1 && p.Ret[len(p.Ret)-1].Op != "nil" // the error may be returned instead of stored
			for _, e := range p.Events {
				if e.Kind == "store" && e.LV.Op == "sel" && e.LV.S == errF && e.Val.Op != "nil" {
					setsErr = true
				}
			}
			sets := lookSets(w, m, p)
			last, lastV := uint64(0), -1
			for v, set := range sets {
				if v > lastV {
					last, lastV = set, v
				}
			}
			word := ""
			for _, cd := range p.Conds {
				a := cd.Atom
				if a.Op == "eq" && cd.Val && a.A[1].Op == "str" {
					word = a.A[1].S
				}
			}
			atEnd := lastV >= 0 && last&^term == 0
			if !atEnd {
				atEnd = exitsOnlyAt(w, m, s, ps, p, term)
			}
			inv := uint64(1) << uint(tt["tokInvalid"])
			good := setsErr || atEnd || word == "end" || (lastV >= 0 && last == inv)
			key := s.Name() + "/stop"
			if word != "" {
				key = "stop-at-" + word // named by the keyword, not by the state function: the same stop under any name
			}
			pos := w.Pos(s.Pos())
			if len(p.Conds) > 0 {
				pos = w.Pos(p.Conds[len(p.Conds)-1].Pos)
			}
			if !good && os.Getenv("GMARSLINT_DEBUG") != "" {
				fmt.Fprintln(os.Stderr, "SCAN.total debug:", s.Name(), "ret", p.Ret[0].Key(), "sets", sets, "last", last, "lastV", lastV, "blocks", p.Blocks)
			}
			d.add(good, key, pos, "the scan stops at the end of the input, an error or END", fmt.Sprintf("the symbol scan stops at '%s' before the end of the input: an EQU placed after that point is invisible to the expression being expanded (e.g. 'i for N … rof' followed by 'N equ 2' fails although EQU placement must not matter)", word))
		}
	}
	d.flush()
}

var _ = ssa.NewProgram

// exitsOnlyAt: path p leaves a loop because a loop-carried boolean b has a
// certain value.  b enters the loop with the opposite (constant) value and every
// back edge sets it to a test of the look-ahead type; p is therefore taken only
// when that test came out so that the look-ahead lies in `allowed`.
func exitsOnlyAt(w *World, m *machine, fn *ssa.Function, paths []*Path, p *Path, allowed uint64) bool {
	all, _ := w.enumDomain(w.NamedType("tokenType"))
	for ci := len(p.Conds) - 1; ci >= 0; ci-- {
		cd := p.Conds[ci]
		lv := cd.Atom
		if lv.Op != "loopvar" {
			continue
		}
		init, _, _ := loopVarInfo(w, fn, p, lv)
		if init == nil {
			// loopVarInfo wants a constant step; a boolean has none: read the entry value directly
			phiIdx, n := -1, 0
			for _, in := range fn.Blocks[int(lv.C)].Instrs {
				if ph, ok := in.(*ssa.Phi); ok {
					if ph.Comment == lv.S {
						phiIdx = n
					}
					n++
				}
			}
			for i := range p.Events {
				if e := &p.Events[i]; e.Kind == "enterloop" && e.Res.C == lv.C && phiIdx >= 0 && phiIdx < len(e.Args) {
					init = e.Args[phiIdx]
				}
			}
			if init == nil || !init.IsConst() || (init.C != 0) == cd.Val {
				return false // may leave before the first iteration
			}
			ok, n2 := true, 0
			for _, q := range paths {
				if q.End != "backedge" {
					continue
				}
				be := q.Events[len(q.Events)-1]
				if be.Res.C != lv.C || phiIdx >= len(be.Args) {
					continue
				}
				n2++
				t := be.Args[phiIdx]
				pol := cd.Val
				for t.Op == "not" {
					t, pol = t.A[0], !pol
				}
				if t.IsConst() {
					if (t.C != 0) == pol {
						ok = false // this iteration always leaves: no evidence about the look-ahead
					}
					continue
				}
				set := all
				if t.Op == "eq" && m.lookTyp(t.A[0]) && t.A[1].IsConst() {
					bit := uint64(1) << uint(t.A[1].C)
					if pol {
						set = bit
					} else {
						set = all &^ bit
					}
				} else if t.Op == "in" && m.lookTyp(t.A[0]) {
					mask := uint64(0)
					for _, el := range t.A[1:] {
						mask |= 1 << uint(el.C)
					}
					if pol {
						set = mask
					} else {
						set = all &^ mask
					}
				}
				if set&^allowed != 0 {
					ok = false
				}
			}
			return ok && n2 > 0
		}
	}
	return false
}

func init() {
	register(&Rule{Name: "NUM.decimal", Min: 1, Doc: "the lexer drops the leading zeros of a number: the text handed verbatim to the Go expression evaluator must not read as an octal literal", Run: ruleNumDecimal})
}

// ruleNumDecimal: the evaluator receives the token texts verbatim (EXPR.eval),
// and the Go evaluator reads a literal with a leading 0 as octal.  Decimal
// meaning therefore needs the lexer to consume leading '0' runes of a number
// without recording them.
func ruleNumDecimal(w *World, r *RuleResult) {
	var m *machine
	for _, mm := range machines(w) {
		if mm.isLexer {
			m = mm
		}
	}
	if m == nil {
		r.undecided("anchor", "-", "lexer machine not found")
		return
	}
	// does the evaluator transform the token text itself? then this is not the lexer's job
	if ev := Asm(w).EvalExpr; ev != nil {
		ps, _ := w.Paths(ev)
		for _, p := range ps {
			for _, e := range p.Events {
				if e.Kind == "call" && e.Callee != nil && (strings.HasPrefix(fnKey(e.Callee), "strings.Trim") || strings.HasPrefix(fnKey(e.Callee), "strconv.")) {
					for _, a := range e.Args {
						if a.contains(func(x *T) bool { return x.Op == "sel" && x.S == "val" }) && strings.HasPrefix(fnKey(e.Callee), "strings.Trim") {
							r.ok("evaluator-normalises", w.Pos(ev.Pos()), "the evaluator trims the token text itself")
							return
						}
					}
				}
			}
		}
	}
	tt := tokenTypes(w)
	found := false
	for _, s := range m.states {
		ps, err := w.Paths(s)
		if err != nil {
			continue
		}
		sendsNumber := false
		for _, p := range ps {
			for i := range p.Events {
				if v, ok := sendOf(w, &p.Events[i]); ok && v.Op == "struct" {
					if t := structField(v, "typ"); t != nil && t.IsConstVal(tt["tokNumber"]) {
						sendsNumber = true
					}
				}
			}
		}
		if !sendsNumber {
			continue
		}
		found = true
		skips := false
		for _, p := range ps {
			zero := hasCond(p, func(a *T, v bool) bool {
				return a.Op == "eq" && v && a.A[1].IsConstVal('0') && m.lookTok(a.A[0])
			})
			if !zero {
				continue
			}
			consumes, records := false, false
			for i := range p.Events {
				e := &p.Events[i]
				if m.isNextCall(e) {
					consumes = true
				}
				if e.Kind == "builtin" && e.Method == "append" {
					records = true
				}
				if e.Kind == "call" && e.Callee != nil && strings.Contains(fnKey(e.Callee), "WriteRune") {
					records = true
				}
			}
			if consumes && !records {
				skips = true
			}
		}
		r.check(skips, s.Name()+"/leading-zeros", w.Pos(s.Pos()), "leading '0' runes of a number are consumed without being recorded", "the number state records every digit, including leading zeros: '010' reaches the Go expression evaluator verbatim and is read as the octal literal 8")
	}
	if !found {
		r.undecided("number-state", "-", "no lexer state sends a number token")
	}
}

func init() {
	register(&Rule{Name: "NARROW", Min: 1, Doc: "no address, field value or counter of the simulator is converted to a narrower integer type", Run: ruleNarrow})
	register(&Rule{Name: "API.typednil", Min: 1, Doc: "an exported method that answers with an interface never wraps a nil pointer in it", Run: ruleTypedNil})
}

// ruleNarrow: the simulator's arithmetic is on Address (64 bit) throughout;
// a conversion to an explicitly sized narrower integer type truncates values
// that a legal configuration can produce (a core larger than the type's
// range).  Every integer conversion in the library's non-test functions is an
// obligation; it is discharged when the target is at least as wide as the
// source, the operand is a constant or a value of an enumerated type, or the
// target is an enumerated type.
func ruleNarrow(w *World, r *RuleResult) {
	width := func(t types.Type) (int, bool) {
		b, ok := t.Underlying().(*types.Basic)
		if !ok || b.Info()&types.IsInteger == 0 {
			return 0, false
		}
		switch b.Kind() {
		case types.Int8, types.Uint8:
			return 8, true
		case types.Int16, types.Uint16:
			return 16, true
		case types.Int32, types.Uint32:
			return 32, true
		}
		return 64, true // int, uint, uintptr taken as 64 bit (the platforms the tool is built for)
	}
	d := newDedup(r)
	n := 0
	for _, fn := range libFuncs(w) {
		for _, b := range fn.Blocks {
			for _, in := range b.Instrs {
				cv, ok := in.(*ssa.Convert)
				if !ok {
					continue
				}
				from, ok1 := width(cv.X.Type())
				to, ok2 := width(cv.Type())
				if !ok1 || !ok2 {
					continue
				}
				n++
				if to >= from {
					continue
				}
				_, isConst := cv.X.(*ssa.Const)
				_, isEnum := w.enumDomain(cv.X.Type())
				// a value made into one of the enumerated types (an opcode from a table index) is
				// that type's business, not a core quantity being cut short
				_, toEnum := w.enumDomain(cv.Type())
				good := isConst || isEnum || toEnum
				key := fmt.Sprintf("%s/%s->%s", fn.Name(), typeName(cv.X.Type()), typeName(cv.Type()))
				d.add(good, key, w.Pos(cv.Pos()), "constant or enumerated operand", fmt.Sprintf("a %s value is converted to %s in %s: values a legal configuration can produce (addresses in a core larger than the type's range, large fields or counters) are truncated", typeName(cv.X.Type()), typeName(cv.Type()), fn.Name()))
			}
		}
	}
	d.flush()
	r.ok("conversions", "-", fmt.Sprintf("%d integer conversions examined", n))
}

// ruleTypedNil: a caller of GetWarrior (or any exported method returning an
// interface) tests the answer against nil.  Wrapping a nil pointer in the
// interface defeats that test.  For every such return the wrapped value must
// be known not to be nil on that path.
func ruleTypedNil(w *World, r *RuleResult) {
	d := newDedup(r)
	n := 0
	var mayBeNil func(fn *ssa.Function, p *Path, v *T, depth int) (bool, string)
	mayBeNil = func(fn *ssa.Function, p *Path, v *T, depth int) (bool, string) {
		v = stripConv(v)
		if hasCond(p, func(a *T, val bool) bool { return a.Op == "eq" && !val && a.A[1].Op == "nil" && sameTerm(a.A[0], v) }) {
			return false, ""
		}
		switch v.Op {
		case "nil":
			return true, "a nil pointer"
		case "new", "alloc", "addr", "fn", "closure":
			return false, ""
		case "call":
			g := w.funcByKey(v.S)
			if g == nil || len(g.Blocks) == 0 || !w.inPkgs(g) || depth > 2 {
				return false, "" // not a function of the module: out of this rule's reach
			}
			gps, err := w.Paths(g)
			if err != nil {
				return false, ""
			}
			for _, gp := range gps {
				if gp.End == "ret" && len(gp.Ret) >= 1 {
					if bad, what := mayBeNil(g, gp, gp.Ret[0], depth+1); bad {
						return true, "the result of " + g.Name() + ", which can be " + what
					}
				}
			}
		}
		return false, ""
	}
	for _, fn := range libRoots(w) {
		if !ast.IsExported(fn.Name()) || fn.Signature.Results().Len() == 0 {
			continue
		}
		if _, isIface := fn.Signature.Results().At(0).Type().Underlying().(*types.Interface); !isIface {
			continue
		}
		if typeName(fn.Signature.Results().At(0).Type()) == "error" {
			continue
		}
		paths, err := w.Paths(fn)
		if err != nil {
			continue
		}
		for _, p := range paths {
			if p.End != "ret" || len(p.Ret) == 0 {
				continue
			}
			ret := p.Ret[0]
			if ret.Op != "iface" {
				continue
			}
			if _, isPtr := ret.A[0].Ty.Underlying().(*types.Pointer); ret.A[0].Ty == nil || !isPtr {
				continue
			}
			n++
			bad, what := mayBeNil(fn, p, ret.A[0], 0)
			d.add(!bad, fn.Name()+"/wraps-non-nil", w.Pos(fn.Pos()), "the pointer wrapped in the returned interface is not nil on this path", fn.Name()+" returns an interface that wraps "+what+": the caller's test against nil does not see it, and the first method call on it dereferences nil")
		}
	}
	d.flush()
	if n == 0 {
		r.undecided("sites", "-", "no exported method returns a pointer wrapped in an interface")
	}
}

func init() {
	register(&Rule{Name: "LINE.comment", Min: 2, Doc: "a load-file comment runs from the first ';' of the line", Run: ruleLineComment})
	register(&Rule{Name: "CFG.wire", Min: 4, Doc: "the simulator's copy of a configuration quantity is that quantity, unchanged, on every constructor path", Run: ruleCfgWire})
}

// ruleLineComment: comment text is layout.  Where a loader cuts a line at a
// ';' the cut must be at the first one: strings.Split(x, ";")[0], the part
// before strings.Cut, x[:strings.Index(x, ";")].  A cut at the last ';'
// leaves comment text in the line.
func ruleLineComment(w *World, r *RuleResult) {
	d := newDedup(r)
	isSemi := func(t *T) bool {
		t = stripConv(t)
		return (t.Op == "str" && t.S == ";") || t.IsConstVal(';')
	}
	for _, fn := range loaderFuncs(w) {
		paths, err := w.Paths(fn)
		if err != nil {
			continue
		}
		seen := false
		for _, p := range paths {
			visit := func(x *T, pos string) bool {
				switch {
				case x.Op == "elem" && stripConv(x.A[0]).Op == "call" && (stripConv(x.A[0]).S == "strings.Split" || stripConv(x.A[0]).S == "strings.SplitN") && len(stripConv(x.A[0]).A) >= 2 && isSemi(stripConv(x.A[0]).A[1]):
					seen = true
					d.add(stripConv(x.A[1]).IsConstVal(0), fn.Name()+"/cut", pos, "the text before the first ';' is kept", "the loader keeps piece "+x.A[1].Show()+" of the line split at ';', not the text before the first ';'")
				case x.Op == "ext" && x.C == 1 && len(x.A) == 1 && x.A[0].Op == "call" && x.A[0].S == "strings.Cut" && len(x.A[0].A) == 2 && isSemi(x.A[0].A[1]):
					seen = true
					d.add(true, fn.Name()+"/cut", pos, "the text before the first ';' is kept", "")
				case x.Op == "slice" && len(x.A) == 4 && x.A[1].Op == "none" && stripConv(x.A[2]).Op == "call" && strings.HasPrefix(stripConv(x.A[2]).S, "strings.") && len(stripConv(x.A[2]).A) == 2 && isSemi(stripConv(x.A[2]).A[1]):
					name := strings.TrimPrefix(stripConv(x.A[2]).S, "strings.")
					seen = true
					first := name == "Index" || name == "IndexByte" || name == "IndexRune"
					d.add(first, fn.Name()+"/cut", pos, "the text before the first ';' is kept", "the loader cuts the line at strings."+name+"(line, \";\"): a comment that itself contains a ';' is only partly removed, and what is left of it is read as fields")
				}
				return true
			}
			for i := range p.Events {
				e := &p.Events[i]
				pos := w.Pos(instrPosE(e))
				for _, t := range append([]*T{e.Val, e.Res, e.LV}, e.Args...) {
					if t != nil {
						t.walk(func(x *T) bool { return visit(x, pos) })
					}
				}
			}
			for _, cd := range p.Conds {
				cd.Atom.walk(func(x *T) bool { return visit(x, w.Pos(cd.Pos)) })
			}
		}
		if !seen {
			d.add(false, fn.Name()+"/cut", w.Pos(fn.Pos()), "", "the loader does not cut lines at ';' in a way this rule recognises")
		}
	}
	d.flush()
}

// ruleCfgWire: the limits, the core size, the process and cycle limits the
// simulator works with are the configuration's.  Every store to a simulator
// field that receives a configuration field on some constructor path must
// store that same configuration field on every path.
func ruleCfgWire(w *World, r *RuleResult) {
	c := newSimCtx(w)
	if len(c.a.Err) > 0 || c.a.Ctor == nil {
		r.undecided("anchors", "-", strings.Join(c.a.Err, "; "))
		return
	}
	paths, err := w.Paths(c.a.Ctor)
	if err != nil {
		r.undecided("paths", w.Pos(c.a.Ctor.Pos()), err.Error())
		return
	}
	cfgField := func(t *T) string {
		t = stripConv(t)
		if t.Op == "sel" && typeName(t.A[0].Ty) == "SimulatorConfig" {
			return t.S
		}
		if t.Op == "sel" && t.A[0].Op == "deref" && typeName(t.A[0].A[0].Ty) == "*SimulatorConfig" {
			return t.S
		}
		return ""
	}
	simT := "*" + c.a.SimT.Obj().Name()
	type st struct {
		val *T
		pos string
	}
	stores := map[string][]st{}
	for _, p := range paths {
		for i := range p.Events {
			e := &p.Events[i]
			if e.Kind != "store" || e.LV.Op != "sel" {
				continue
			}
			root := e.LV.A[0]
			if root.Op == "deref" {
				root = root.A[0]
			}
			if typeName(root.Ty) != simT && !(root.Op == "new" && strings.Contains(typeName(root.Ty), c.a.SimT.Obj().Name())) {
				continue
			}
			stores[e.LV.S] = append(stores[e.LV.S], st{e.Val, c.posOf(e)})
		}
	}
	d := newDedup(r)
	var fields []string
	for f := range stores {
		fields = append(fields, f)
	}
	sort.Strings(fields)
	for _, f := range fields {
		src := ""
		for _, s := range stores[f] {
			if cf := cfgField(s.val); cf != "" {
				src = cf
			}
		}
		if src == "" {
			continue
		}
		for _, s := range stores[f] {
			d.add(cfgField(s.val) == src, "field/"+f, s.pos, "holds configuration field "+src+" on every path", "simulator field "+f+" holds the configuration's "+src+" on some constructor paths but "+s.val.Show()+" on others: the battle is not played with the configured value")
		}
	}
	d.flush()
}

func init() {
	register(&Rule{Name: "ALLOC.input", Min: 1, Doc: "the assembler sizes its allocations from the input, never from a configuration limit", Run: ruleAllocInput})
}

// ruleAllocInput: assembling takes time and memory proportional to the input.
// A slice, map or channel made with a size taken from the configuration (the
// maximum length, the core size) costs that much whatever the input is, and
// panics for limits the configuration check accepts.  Every make in the
// functions reachable from the assembler's entry point is an obligation.
func ruleAllocInput(w *World, r *RuleResult) {
	entry := w.LibFunc("CompileWarrior")
	if entry == nil {
		r.undecided("anchor", "-", "CompileWarrior not found")
		return
	}
	reach := map[*ssa.Function]bool{}
	var visit func(f *ssa.Function)
	visit = func(f *ssa.Function) {
		if f == nil || reach[f] || len(f.Blocks) == 0 || f.Pkg != w.SLib {
			return
		}
		reach[f] = true
		for _, b := range f.Blocks {
			for _, in := range b.Instrs {
				if ci, ok := in.(ssa.CallInstruction); ok {
					visit(ci.Common().StaticCallee())
					// states and helpers passed around as values
					for _, a := range ci.Common().Args {
						if fv, ok := a.(*ssa.Function); ok {
							visit(fv)
						}
					}
				}
				for _, op := range in.Operands(nil) {
					if fv, ok := (*op).(*ssa.Function); ok {
						visit(fv)
					}
					if mc, ok := (*op).(*ssa.MakeClosure); ok {
						if fv, ok := mc.Fn.(*ssa.Function); ok {
							visit(fv)
						}
					}
				}
			}
		}
	}
	visit(entry)
	fromConfig := func(v ssa.Value) bool {
		seen := map[ssa.Value]bool{}
		var walk func(v ssa.Value, d int) bool
		walk = func(v ssa.Value, d int) bool {
			if v == nil || seen[v] || d > 8 {
				return false
			}
			seen[v] = true
			isCfg := func(t types.Type) bool {
				n := typeName(t)
				return n == "SimulatorConfig" || n == "*SimulatorConfig"
			}
			switch x := v.(type) {
			case *ssa.Field:
				return isCfg(x.X.Type()) || walk(x.X, d+1)
			case *ssa.FieldAddr:
				return isCfg(x.X.Type()) || walk(x.X, d+1)
			case *ssa.UnOp:
				return walk(x.X, d+1)
			case *ssa.BinOp:
				return walk(x.X, d+1) || walk(x.Y, d+1)
			case *ssa.Convert:
				return walk(x.X, d+1)
			case *ssa.ChangeType:
				return walk(x.X, d+1)
			case *ssa.Phi:
				for _, e := range x.Edges {
					if walk(e, d+1) {
						return true
					}
				}
			}
			return false
		}
		return walk(v, 0)
	}
	d := newDedup(r)
	n := 0
	var fns []*ssa.Function
	for f := range reach {
		fns = append(fns, f)
	}
	sort.Slice(fns, func(i, j int) bool { return fns[i].String() < fns[j].String() })
	for _, f := range fns {
		k := 0
		for _, b := range f.Blocks {
			for _, in := range b.Instrs {
				var sizes []ssa.Value
				switch x := in.(type) {
				case *ssa.MakeSlice:
					sizes = []ssa.Value{x.Len, x.Cap}
				case *ssa.MakeMap:
					sizes = []ssa.Value{x.Reserve}
				case *ssa.MakeChan:
					sizes = []ssa.Value{x.Size}
				default:
					continue
				}
				n++
				k++
				bad := false
				for _, s := range sizes {
					if s != nil && fromConfig(s) {
						bad = true
					}
				}
				d.add(!bad, fmt.Sprintf("%s/make#%d", f.Name(), k), w.Pos(in.Pos()), "sized from the input (or a constant)", "an allocation in "+f.Name()+" is sized from a configuration field: the assembler's cost no longer follows the size of the input, and limits the configuration check accepts make it panic")
			}
		}
	}
	d.flush()
	if n == 0 {
		r.undecided("sites", "-", "no allocation found in the functions the assembler reaches")
	}
}

func init() {
	register(&Rule{Name: "META.agree", Min: 3, Doc: "assembler and load-file readers capture name, author and strategy comments the same way", Run: ruleMetaAgree})
}

// ruleMetaAgree: the three metadata comments are read by the parser and by
// both load-file readers.  For each of Name, Author and Strategy every store
// must take the same part of the comment (the same offset after the keyword)
// and treat blanks the same way (trimmed or verbatim); otherwise the same text
// gives different warriors depending on which reader saw it.
func ruleMetaAgree(w *World, r *RuleResult) {
	type sig struct {
		off     int64
		trimmed bool
		ok      bool
	}
	shape := func(v *T) sig {
		v = stripConv(v)
		// old + piece, piece + "\n"
		for v.Op == "cat" {
			a, b := stripConv(v.A[0]), stripConv(v.A[1])
			switch {
			case b.Op == "str" && strings.TrimSpace(b.S) == "":
				v = a
			case a.Op == "sel" || a.Op == "loopvar" || a.Op == "unk" || (a.Op == "str" && a.S == ""):
				v = b
			default:
				return sig{}
			}
		}
		s := sig{}
		if v.Op == "call" && v.S == "strings.TrimSpace" && len(v.A) == 1 {
			s.trimmed = true
			v = stripConv(v.A[0])
		}
		if v.Op == "slice" && len(v.A) == 4 && v.A[1].IsConst() && v.A[2].Op == "none" {
			s.off, s.ok = v.A[1].C, true
		}
		return s
	}
	type site struct {
		fn  string
		pos string
		s   sig
		raw string
	}
	// read off the instructions: the stores go to a local warrior as often as to one in memory
	var shapeV func(v ssa.Value, field string, d int) sig
	shapeV = func(v ssa.Value, field string, d int) sig {
		if d > 6 {
			return sig{}
		}
		switch x := v.(type) {
		case *ssa.BinOp:
			if x.Op != token.ADD {
				return sig{}
			}
			if c, ok := x.Y.(*ssa.Const); ok && c.Value != nil && c.Value.Kind() == constant.String && strings.TrimSpace(constant.StringVal(c.Value)) == "" {
				return shapeV(x.X, field, d+1)
			}
			// old value + piece
			if ld, ok := x.X.(*ssa.UnOp); ok {
				if fa, ok := ld.X.(*ssa.FieldAddr); ok && derefStruct(fa.X.Type()).Field(fa.Field).Name() == field {
					return shapeV(x.Y, field, d+1)
				}
			}
			return sig{}
		case *ssa.Call:
			if cal := x.Call.StaticCallee(); cal != nil && cal.Pkg != nil && cal.Pkg.Pkg.Path() == "strings" && cal.Name() == "TrimSpace" && len(x.Call.Args) == 1 {
				s := shapeV(x.Call.Args[0], field, d+1)
				s.trimmed = true
				return s
			}
		case *ssa.Slice:
			if c, ok := x.Low.(*ssa.Const); ok && x.High == nil {
				// a slice of something that is already a tail of the comment: the offsets add up
				if inner := shapeV(x.X, field, d+1); inner.ok && !inner.trimmed {
					inner.off += c.Int64()
					return inner
				}
				return sig{off: c.Int64(), ok: true}
			}
		case *ssa.Extract:
			// the remainder strings.CutPrefix(comment, ";keyword") hands back is comment[len(";keyword"):]
			if call, ok := x.Tuple.(*ssa.Call); ok && x.Index == 0 {
				if cal := call.Call.StaticCallee(); cal != nil && cal.Pkg != nil && cal.Pkg.Pkg.Path() == "strings" && cal.Name() == "CutPrefix" && len(call.Call.Args) == 2 {
					if c, ok := call.Call.Args[1].(*ssa.Const); ok && c.Value != nil && c.Value.Kind() == constant.String {
						return sig{off: int64(len(constant.StringVal(c.Value))), ok: true}
					}
				}
			}
		}
		if call, ok := v.(*ssa.Call); ok {
			if cal := call.Call.StaticCallee(); cal != nil && cal.Pkg != nil && cal.Pkg.Pkg.Path() == "strings" && cal.Name() == "TrimPrefix" && len(call.Call.Args) == 2 {
				if c, ok := call.Call.Args[1].(*ssa.Const); ok && c.Value != nil && c.Value.Kind() == constant.String {
					return sig{off: int64(len(constant.StringVal(c.Value))), ok: true}
				}
			}
		}
		return sig{}
	}
	_ = shape
	sites := map[string][]site{}
	for _, fn := range libFuncs(w) {
		for _, b := range fn.Blocks {
			for _, in := range b.Instrs {
				st, ok := in.(*ssa.Store)
				if !ok {
					continue
				}
				fa, ok := st.Addr.(*ssa.FieldAddr)
				if !ok || !strings.Contains(typeName(fa.X.Type()), "WarriorData") {
					continue
				}
				f := derefStruct(fa.X.Type()).Field(fa.Field).Name()
				if f != "Name" && f != "Author" && f != "Strategy" {
					continue
				}
				switch st.Val.(type) {
				case *ssa.Const, *ssa.UnOp, *ssa.Field, *ssa.Parameter:
					continue // a default, or a copy of another warrior's field
				}
				sites[f] = append(sites[f], site{fn.Name(), w.Pos(st.Pos()), shapeV(st.Val, f, 0), st.Val.String()})
			}
		}
	}
	d := newDedup(r)
	for _, f := range []string{"Name", "Author", "Strategy"} {
		ss := sites[f]
		if len(ss) == 0 {
			d.add(false, f+"/sites", "-", "", "no reader captures the "+f+" comment")
			continue
		}
		ref := ss[0]
		for _, s := range ss {
			if !s.s.ok {
				d.add(false, f+"/"+s.fn, s.pos, "", "the "+f+" text captured in "+s.fn+" ("+s.raw+") is not a part of the comment this rule recognises")
				continue
			}
			same := s.s == ref.s
			d.add(same, f+"/"+s.fn, s.pos, fmt.Sprintf("comment[%d:], trimmed=%v, as in every other reader", s.s.off, s.s.trimmed), fmt.Sprintf("the %s comment is captured as comment[%d:] (trimmed=%v) in %s but as comment[%d:] (trimmed=%v) in %s: the same text gives different metadata depending on the reader", f, s.s.off, s.s.trimmed, s.fn, ref.s.off, ref.s.trimmed, ref.fn))
		}
	}
	d.flush()
}
