package main

import (
	"flag"
	"fmt"
	"os"
	"runtime/debug"
	"sort"
	"strconv"
	"strings"
	"time"
)

type Property struct {
	ID         string
	Rules      []string
	Explain    string
	NotDecided string
	Assumes    []string
}

var rules = map[string]*Rule{}

func register(r *Rule) { rules[r.Name] = r }

func main() {
	prop := flag.String("prop", "", "property id (C01..C17)")
	tier := flag.String("tier", "quick", "quick|thorough")
	root := flag.String("root", "/repo", "repository root")
	evDir := flag.String("evidence", "/verif/evidence", "evidence directory")
	knownPath := flag.String("known", "/verif/known_findings.json", "known findings file")
	only := flag.String("rules", "", "comma-separated rule names (debug: run just these, no evidence)")
	dump := flag.String("dump", "", "debug: dump explored paths of a function")
	list := flag.Bool("list", false, "list properties and rules")
	noinl := flag.Bool("noinline", false, "debug: explore without expanding helpers in place")
	inl := flag.Bool("inl", false, "debug: list which functions are roots, boundaries, or expanded in place")
	flag.Parse()
	start := time.Now()
	seed := 0
	if s := os.Getenv("VERIF_SEED"); s != "" {
		if v, err := strconv.Atoi(s); err == nil {
			seed = v
		}
	}
	if seed < 0 {
		seed = -seed
	}
	if *list {
		ids := []string{}
		for id := range properties {
			ids = append(ids, id)
		}
		sort.Strings(ids)
		for _, id := range ids {
			fmt.Println(id, strings.Join(properties[id].Rules, " "))
		}
		return
	}
	code := 2
	func() {
		defer func() {
			if r := recover(); r != nil {
				fmt.Printf("INTERNAL ERROR (checker panic): %v\n%s\n", r, debug.Stack())
				code = 2
			}
		}()
		w, err := LoadWorld(*root)
		if err != nil {
			fmt.Println("LOAD ERROR:", err)
			code = 2
			return
		}
		w.NoInline = *noinl
		resolveAnchors(w)
		if *inl {
			for _, f := range w.Funcs {
				tag := "root     "
				if w.covered(f) {
					tag = "covered  "
				} else if w.inlinable(f) {
					tag = "inl+root "
				}
				if b := w.boundary[f]; b != "" {
					tag = "boundary "
				}
				fmt.Println(tag, fnKey(f), w.boundary[f])
			}
			code = 0
			return
		}
		if *dump != "" {
			dumpPaths(w, *dump)
			code = 0
			return
		}
		if *only != "" {
			code = 0
			for _, n := range strings.Split(*only, ",") {
				r := rules[n]
				if r == nil {
					fmt.Println("no such rule", n)
					continue
				}
				res := &RuleResult{Name: r.Name, Doc: r.Doc, Min: r.Min}
				r.Run(w, res)
				for _, o := range res.Obs {
					fmt.Printf("%-10s %s  %s — %s\n", o.Verdict, o.Pos, o.Key, o.Reason)
					if o.Verdict != Discharged {
						code = 1
					}
				}
				for _, nn := range res.Notes {
					fmt.Println("note:", nn)
				}
				fmt.Printf("rule %s: %d sites (min %d)\n", r.Name, len(res.Obs), r.Min)
			}
			return
		}
		p := properties[*prop]
		if p == nil {
			fmt.Println("unknown property", *prop)
			code = 2
			return
		}
		known, err := loadKnown(*knownPath)
		if err != nil {
			fmt.Println("cannot read known findings:", err)
			code = 2
			return
		}
		var results []*RuleResult
		for _, n := range p.Rules {
			r := rules[n]
			if r == nil {
				fmt.Println("INTERNAL ERROR: rule not registered:", n)
				code = 2
				return
			}
			res := &RuleResult{Name: r.Name, Doc: r.Doc, Min: r.Min}
			r.Run(w, res)
			results = append(results, res)
		}
		extra := map[string]any{}
		if boundsProps[p.ID] != nil {
			br := boundsObligations(w, p)
			extra["bounds_obligations"] = br.summary
			results = append(results, br.rule)
		}
		if *tier == "thorough" {
			thorough(w, p, results, extra)
			if er, ok := extra["__extra_results"].([]*RuleResult); ok {
				results = append(results, er...)
				delete(extra, "__extra_results")
			}
		}
		if os.Getenv("GMARSLINT_VERBOSE") != "" {
			for _, res := range results {
				for _, o := range res.Obs {
					fmt.Printf("%-10s %s  %s — %s\n", o.Verdict, o.Pos, o.Key, o.Reason)
				}
			}
		}
		code = report(w, p, results, known, *tier, seed, *evDir, start, extra)
	}()
	os.Exit(code)
}

// resolveAnchors resolves every rule's anchors before any rule runs, so that
// the set of functions the explorer keeps opaque is final and the same for
// all rules.
func resolveAnchors(w *World) {
	w.setInlineBudget(anchorInlineIfs)
	machines(w)
	Anchors(w)
	Asm(w)
	resolveQueue(w, newSimCtx(w))
	w.setInlineBudget(maxInlineIfs)
}
