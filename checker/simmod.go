package main

// Inductive range invariant of the simulator (C04/C12/C13/C15):
//   I1 every stored A/B field < M      (MOD.store)
//   I2 every queued program counter < M (MOD.push)
//   I3 every core index < M            (MOD.index)
//   I4 every warrior report address < M (MOD.report)
// plus NI (absolute addresses never become data), PAIR.report, POP.report.

import (
	"fmt"
	"go/ast"
	"go/types"
	"sort"
	"strings"

	"golang.org/x/tools/go/ssa"
)

func init() {
	register(&Rule{Name: "MOD.index", Min: 30, Doc: "every index into the core is reduced modulo the core size", Run: ruleModIndex})
	register(&Rule{Name: "MOD.store", Min: 30, Doc: "every value stored into a core field is reduced; whole cells are copies of valid cells", Run: ruleModStore})
	register(&Rule{Name: "MOD.push", Min: 10, Doc: "every queued program counter is reduced", Run: ruleModPush})
	register(&Rule{Name: "MOD.report", Min: 30, Doc: "every warrior report carries a reduced address and a valid warrior index", Run: ruleModReport})
	register(&Rule{Name: "NI", Min: 100, Doc: "absolute addresses flow only to indices, pushes and report addresses, never into stored data or branch conditions", Run: ruleNI})
	register(&Rule{Name: "PAIR.report", Min: 30, Doc: "every core store is named by a write/increment/decrement report of the executing warrior at the same address within the task", Run: rulePairReport})
	register(&Rule{Name: "POP.report", Min: 1, Doc: "each executed task is announced by a task-pop report with its PC and warrior before it runs", Run: rulePopReport})
	register(&Rule{Name: "SPAWN.mod", Min: 3, Doc: "every use of the load offset in spawn (core index, initial task, report) passes through % M", Run: ruleSpawnMod})
	register(&Rule{Name: "MOD.len", Min: 1, Doc: "the core is only ever make([]Instruction, M)", Run: ruleModLen})
}

type redCtx struct {
	c    *simCtx
	fn   *ssa.Function
	ea   *execAnalysis
	role map[string]string
}

func newRedCtx(w *World, fn *ssa.Function) *redCtx {
	ea := analyseExec(w)
	rc := &redCtx{c: newSimCtx(w), fn: fn, ea: ea, role: map[string]string{}}
	if ea.err == "" {
		if fn == rc.c.a.Exec {
			rc.role[ea.v.pcName] = "PC"
		}
		if roles, ok := ea.roles[fn]; ok {
			for i, p := range fn.Params {
				if i < len(roles) {
					rc.role[p.Name()] = roles[i]
				}
			}
		}
	}
	return rc
}

// reduced: is t provably < M (under the inductive hypothesis I1, I2)?
func (rc *redCtx) reduced(t *T) (bool, string) {
	c := rc.c
	t = stripConv(t)
	switch t.Op {
	case "c":
		if t.C >= 0 && t.C < 3 {
			return true, "constant < 3 <= M"
		}
		return false, fmt.Sprintf("constant %d is not known to be below the core size", t.C)
	case "rem":
		if c.isM(t.A[1]) {
			return true, "x % M"
		}
		if ok, _ := rc.reduced(t.A[0]); ok {
			return true, "remainder of a reduced value"
		}
	case "quo":
		if ok, _ := rc.reduced(t.A[0]); ok {
			return true, "quotient of a reduced value"
		}
	case "p":
		switch rc.role[t.S] {
		case "PC", "WAB", "RAA", "WAA", "RAB":
			return true, "parameter carrying " + rc.role[t.S] + " (reduced at every call site)"
		}
	case "sel":
		if t.S == "A" || t.S == "B" {
			if _, _, ok := c.cell(t); ok {
				return true, "field of a core cell (I1)"
			}
			if t.A[0].Op == "p" && typeName(t.A[0].Ty) == "Instruction" {
				if ro := rc.role[t.A[0].S]; strings.HasPrefix(ro, "IR") {
					return true, "field of " + ro + " (copy of a core cell, I1)"
				}
			}
		}
	case "ext":
		// first result of Pop
		if t.C == 1 && c.isPopCall(t.A[0]) {
			return true, "popped program counter (I2)"
		}
	}
	return false, t.Show() + " is not reduced modulo the core size"
}

// libFuncs: non-synthetic library functions.
// isCodeList: t is a warrior's instruction list: the Code field of its data,
// or a parameter of an unexported function to which every call site passes
// such a list.
func isCodeList(w *World, fn *ssa.Function, t *T, depth int) bool {
	t = stripConv(t)
	if t.Op == "sel" && t.S == "Code" {
		return true
	}
	if t.Op != "p" || fn == nil || depth > 2 || ast.IsExported(fn.Name()) || w.addrTaken[fn] {
		return false
	}
	k := -1
	for i, prm := range fn.Params {
		if prm.Name() == t.S {
			k = i
		}
	}
	if k < 0 {
		return false
	}
	n := 0
	for _, root := range w.CallerRoots(fn) {
		paths, err := w.Paths(root)
		if err != nil {
			return false
		}
		for _, p := range paths {
			for i := range p.Events {
				e := &p.Events[i]
				if (e.Kind == "call" || e.Kind == "inline") && e.Callee == fn && k < len(e.Args) {
					n++
					if !isCodeList(w, root, e.Args[k], depth+1) {
						return false
					}
				}
			}
		}
	}
	return n > 0
}

func libFuncs(w *World) []*ssa.Function {
	var out []*ssa.Function
	for _, f := range w.Funcs {
		if f.Pkg == w.SLib {
			out = append(out, f)
		}
	}
	return out
}

// dedupAdd adds one obligation per (key) with the worst verdict over paths.
type dedup struct {
	r     *RuleResult
	seen  map[string]*Obligation
	order []string
}

func newDedup(r *RuleResult) *dedup { return &dedup{r: r, seen: map[string]*Obligation{}} }
func (d *dedup) add(ok bool, key, pos, okMsg, badMsg string) {
	o, have := d.seen[key]
	if !have {
		o = &Obligation{Key: key, Pos: pos, Verdict: Discharged, Reason: okMsg}
		d.seen[key] = o
		d.order = append(d.order, key)
	}
	if !ok && o.Verdict == Discharged {
		o.Verdict = Violated
		o.Reason = badMsg
		o.Pos = pos
	}
}
func (d *dedup) flush() {
	for _, k := range d.order {
		o := d.seen[k]
		d.r.add(o.Verdict, o.Key, o.Pos, o.Reason)
	}
}

func siteKey(w *World, fn *ssa.Function, e *Event, what string) string {
	// descriptor: function + kind + ordinal of the instruction among same-kind instructions in the function
	n := 0
	found := false
	for _, b := range fn.Blocks {
		for _, in := range b.Instrs {
			if in == e.Instr {
				found = true
				break
			}
			switch in.(type) {
			case *ssa.Store:
				if e.Kind == "store" {
					n++
				}
			case *ssa.Call:
				if e.Kind == "call" {
					n++
				}
			case *ssa.UnOp:
				if e.Kind == "load" {
					n++
				}
			}
		}
		if found {
			break
		}
	}
	return fmt.Sprintf("%s/%s#%d", fn.Name(), what, n)
}

func ruleModIndex(w *World, r *RuleResult) {
	c := newSimCtx(w)
	if len(c.a.Err) > 0 {
		r.undecided("anchors", "-", strings.Join(c.a.Err, "; "))
		return
	}
	d := newDedup(r)
	for _, fn := range libRoots(w) {
		paths, err := w.Paths(fn)
		if err != nil {
			r.undecided(fn.Name(), w.Pos(fn.Pos()), err.Error())
			continue
		}
		rc := newRedCtx(w, fn)
		for _, p := range paths {
			for i := range p.Events {
				e := &p.Events[i]
				if e.Kind != "load" && e.Kind != "store" {
					continue
				}
				idx, _, ok := c.cell(e.LV)
				if !ok {
					continue
				}
				good, why := rc.reduced(idx)
				d.add(good, siteKey(w, fn, e, "core["+e.Kind+"]"), c.posOf(e), why, "core index "+why)
			}
		}
	}
	d.flush()
}

func ruleModStore(w *World, r *RuleResult) {
	c := newSimCtx(w)
	if len(c.a.Err) > 0 {
		r.undecided("anchors", "-", strings.Join(c.a.Err, "; "))
		return
	}
	d := newDedup(r)
	for _, fn := range libRoots(w) {
		paths, err := w.Paths(fn)
		if err != nil {
			continue
		}
		rc := newRedCtx(w, fn)
		for _, p := range paths {
			for i := range p.Events {
				e := &p.Events[i]
				if e.Kind == "builtin" && (e.Method == "copy" || e.Method == "append") && len(e.Args) > 0 && e.Args[0].contains(func(x *T) bool { return c.isRecvField(x, c.a.MemField) }) {
					r.undecided(fn.Name()+"/bulk-"+e.Method, c.posOf(e), "the core is written through "+e.Method+"(): the per-cell rules (index reduced, wrap-around at the end of the core, field ranges) cannot be decided for a bulk write")
				}
				if e.Kind != "store" {
					continue
				}
				_, f, ok := c.cell(e.LV)
				if !ok {
					continue
				}
				key := siteKey(w, fn, e, "core."+f+"=")
				switch f {
				case "A", "B":
					good, why := rc.reduced(e.Val)
					d.add(good, key, c.posOf(e), why, "stored field value "+why)
				case "":
					v := stripConv(e.Val)
					good := false
					why := ""
					if _, f2, ok := c.cell(v); ok && f2 == "" {
						good, why = true, "copy of a core cell"
					} else if v.Op == "p" && strings.HasPrefix(rc.role[v.S], "IR") {
						good, why = true, "copy of "+rc.role[v.S]
					} else if v.Op == "elem" && isCodeList(w, fn, v.A[0], 0) {
						good, why = true, "instruction of the warrior's own copied code (assumption A1: loaded warriors have fields < M)"
					}
					d.add(good, key, c.posOf(e), why, "whole cell overwritten with "+v.Show()+", which is not a copy of a valid instruction")
				default:
					d.add(false, key, c.posOf(e), "", "store to instruction field "+f+" outside the ICWS'94 effect table")
				}
			}
		}
	}
	d.flush()
}

func ruleModPush(w *World, r *RuleResult) {
	c := newSimCtx(w)
	if len(c.a.Err) > 0 {
		r.undecided("anchors", "-", strings.Join(c.a.Err, "; "))
		return
	}
	d := newDedup(r)
	for _, fn := range libRoots(w) {
		paths, err := w.Paths(fn)
		if err != nil {
			continue
		}
		rc := newRedCtx(w, fn)
		for _, p := range paths {
			for i := range p.Events {
				e := &p.Events[i]
				if !c.isPush(e) {
					continue
				}
				good, why := rc.reduced(e.Args[1])
				d.add(good, siteKey(w, fn, e, "push"), c.posOf(e), why, "queued program counter "+why)
			}
		}
	}
	d.flush()
}

func (c *simCtx) warriorReportTypes() map[int64]string {
	out := map[int64]string{}
	for n, v := range c.rt {
		if strings.HasPrefix(n, "Warrior") {
			out[v] = n
		}
	}
	return out
}

func (c *simCtx) indexField() string {
	st := c.a.WarT.Underlying().(*types.Struct)
	name := ""
	for i := 0; i < st.NumFields(); i++ {
		if b, ok := st.Field(i).Type().(*types.Basic); ok && b.Kind() == types.Int {
			if name != "" {
				return "index"
			}
			name = st.Field(i).Name()
		}
	}
	return name
}

func (c *simCtx) isWarriorIndex(t *T, p *Path) bool {
	t = stripConv(t)
	if t.Op == "sel" && t.S == c.indexField() && t.A[0].Op == "deref" {
		return true
	}
	// the value used to index the warrior list on this path
	for i := range p.Events {
		_ = i
	}
	return false
}

func ruleModReport(w *World, r *RuleResult) {
	c := newSimCtx(w)
	if len(c.a.Err) > 0 {
		r.undecided("anchors", "-", strings.Join(c.a.Err, "; "))
		return
	}
	wt := c.warriorReportTypes()
	d := newDedup(r)
	for _, fn := range libRoots(w) {
		paths, err := w.Paths(fn)
		if err != nil {
			continue
		}
		rc := newRedCtx(w, fn)
		for _, p := range paths {
			// index terms used on the warrior list on this path
			widxOK := map[string]bool{}
			for _, ev := range p.Events {
				_ = ev
			}
			for _, b := range p.Blocks {
				_ = b
			}
			for i := range p.Events {
				e := &p.Events[i]
				rep, ok := c.reportOf(e)
				if !ok {
					continue
				}
				key := siteKey(w, fn, e, "report")
				if !rep.TypeOK {
					d.add(false, key, c.posOf(e), "", "report type is not a constant")
					continue
				}
				tn, isW := wt[rep.Type]
				if !isW {
					d.add(true, key+"/"+c.w.EnumConstName(c.w.NamedType("ReportType"), rep.Type), c.posOf(e), "simulation-level report (no address)", "")
					continue
				}
				key += "/" + tn
				good, why := rc.reduced(rep.Addr)
				d.add(good, key+"/addr", c.posOf(e), why, "report address "+why)
				wi := stripConv(rep.WIdx)
				wgood := c.isWarriorIndex(wi, p) || widxOK[wi.Show()] || (fn == c.a.RunCycle && wi.Op == "loopvar")
				d.add(wgood, key+"/warrior", c.posOf(e), "index of an existing warrior", "warrior index "+wi.Show()+" is neither a warrior's own index field nor the bounded loop variable of the cycle loop")
			}
		}
	}
	d.flush()
}

func ruleNI(w *World, r *RuleResult) {
	ea := analyseExec(w)
	if !execGuard(r, ea) {
		return
	}
	c := ea.v.c
	d := newDedup(r)
	fns := append([]*ssa.Function{c.a.Exec}, c.a.Helpers...)
	for _, fn := range fns {
		rc := newRedCtx(w, fn)
		abs := func(t *T) string {
			found := ""
			t.walk(func(x *T) bool {
				if x.Op == "p" {
					switch rc.role[x.S] {
					case "PC", "WAB", "RAA", "WAA", "RAB":
						found = x.S
					}
				}
				// indices of core cells are allowed to be absolute
				if _, _, ok := c.cell(x); ok {
					return false
				}
				return found == ""
			})
			return found
		}
		paths, _ := w.Paths(fn)
		for _, p := range paths {
			for i := range p.Events {
				e := &p.Events[i]
				if e.Kind == "store" {
					if _, f, ok := c.cell(e.LV); ok {
						a := abs(e.Val)
						d.add(a == "", siteKey(w, fn, e, "data."+f), c.posOf(e), "stored value is position-independent", "stored value "+e.Val.Show()+" depends on the absolute address "+a)
					}
				}
			}
			for _, cd := range p.Conds {
				a := abs(cd.Atom)
				d.add(a == "", fmt.Sprintf("%s/cond/%s", fn.Name(), stripEpoch(cd.Atom).Key()), w.Pos(cd.Pos), "branch condition is position-independent", "branch condition "+cd.Atom.Show()+" depends on the absolute address "+a)
			}
		}
	}
	d.flush()
}

func rulePairReport(w *World, r *RuleResult) {
	ea := analyseExec(w)
	if !execGuard(r, ea) {
		return
	}
	c := ea.v.c
	changeTypes := map[int64]bool{c.rt["WarriorWrite"]: true, c.rt["WarriorIncrement"]: true, c.rt["WarriorDecrement"]: true}
	hasReport := func(p *Path, addr *T) bool {
		for i := range p.Events {
			rep, ok := c.reportOf(&p.Events[i])
			if ok && rep.TypeOK && changeTypes[rep.Type] && rep.Addr != nil && rep.Addr.Show() == addr.Show() && c.isWarriorIndex(rep.WIdx, p) {
				return true
			}
		}
		return false
	}
	d := newDedup(r)
	// executor's own stores
	for _, info := range ea.infos {
		for _, ce := range ea.v.coreEvents(info.p) {
			if !ce.store {
				continue
			}
			tag := "?"
			if ce.kOK {
				dl, _ := c.rmwDelta(ce.e.Val, ce.idx, ce.f)
				tag = fmt.Sprintf("%c-operand %s%+d", ce.k.P.Op, ce.f, dl)
			}
			d.add(hasReport(info.p, ce.idx), siteKey(w, c.a.Exec, ce.e, "store"), c.posOf(ce.e), "reported on every path ("+tag+")",
				fmt.Sprintf("core cell changed (%s at %s) but no write/increment/decrement report of this warrior names that address on the path %s", tag, ce.idx.Show(), info.label))
		}
	}
	// helper stores: reported in the helper path itself or around every call site
	for _, h := range c.a.Helpers {
		hv, err := newHelperView(ea, h)
		if err != "" {
			r.undecided(h.Name(), w.Pos(h.Pos()), err)
			continue
		}
		// caller coverage: for parameter j, does every executor path calling h report the argument?
		callerReports := map[int]bool{}
		for j := range h.Params {
			all := true
			n := 0
			for _, info := range ea.infos {
				for i := range info.p.Events {
					e := &info.p.Events[i]
					if e.Kind == "call" && e.Callee == h {
						n++
						if j >= len(e.Args) || !hasReport(info.p, e.Args[j]) {
							all = false
						}
					}
				}
			}
			callerReports[j] = all && n > 0
		}
		for _, p := range hv.paths {
			for i := range p.Events {
				e := &p.Events[i]
				if e.Kind != "store" {
					continue
				}
				idx, f, ok := c.cell(e.LV)
				if !ok {
					continue
				}
				good := hasReport(p, idx)
				if !good && idx.Op == "p" {
					for j, prm := range h.Params {
						if prm.Name() == idx.S && callerReports[j] {
							good = true
						}
					}
				}
				d.add(good, siteKey(w, h, e, "store."+f), c.posOf(e), "reported by the helper or by the executor after every call",
					fmt.Sprintf("%s changes cell %s.%s on path %s but neither this path nor every executor path through the call reports it", h.Name(), idx.Show(), f, hv.pathLabel(p)))
			}
		}
	}
	d.flush()
}

func rulePopReport(w *World, r *RuleResult) {
	c := newSimCtx(w)
	if len(c.a.Err) > 0 || c.a.Exec == nil {
		r.undecided("anchors", "-", strings.Join(c.a.Err, "; "))
		return
	}
	d := newDedup(r)
	for _, callRoot := range w.CallerRoots(c.a.Exec) {
		fn := callRoot
		paths, err := w.Paths(fn)
		if err != nil {
			r.undecided(fn.Name(), w.Pos(fn.Pos()), err.Error())
			continue
		}
		for _, p := range paths {
			for i := range p.Events {
				e := &p.Events[i]
				if e.Kind != "call" || e.Callee != c.a.Exec {
					continue
				}
				pc := e.Args[1]
				war := e.Args[2]
				found := false
				for j := 0; j < i; j++ {
					rep, ok := c.reportOf(&p.Events[j])
					if ok && rep.TypeOK && rep.Type == c.rt["WarriorTaskPop"] && rep.Addr.Show() == pc.Show() {
						// warrior index: the same index used to fetch the warrior passed to exec
						wi := stripConv(rep.WIdx)
						wk := stripEpoch(war)
						if wk.Op == "elem" && wk.A[1].Show() == wi.Show() {
							found = true
						}
						if wi.Op == "sel" && wi.A[0].Op == "deref" && wi.A[0].A[0].Show() == war.Show() {
							found = true
						}
					}
				}
				okPop, why := newRedCtx(w, fn).reduced(pc)
				d.add(found, siteKey(w, fn, e, "exec"), c.posOf(e), "preceded by a task-pop report with the same PC and warrior", "task executed without a preceding task-pop report carrying the same program counter and warrior index")
				d.add(okPop, siteKey(w, fn, e, "exec-pc"), c.posOf(e), why, "executed program counter "+why)
			}
		}
	}
	d.flush()
}

func ruleSpawnMod(w *World, r *RuleResult) {
	c := newSimCtx(w)
	if len(c.a.Err) > 0 || c.a.Spawn == nil {
		r.undecided("anchors", "-", strings.Join(c.a.Err, "; "))
		return
	}
	fn := c.a.Spawn
	var off string
	for _, p := range fn.Params {
		if typeName(p.Type()) == "Address" {
			off = p.Name()
		}
	}
	if off == "" {
		r.undecided("offset", w.Pos(fn.Pos()), "spawn routine has no Address parameter")
		return
	}
	d := newDedup(r)
	sinks := 0
	// the offset is followed into every module function it is handed to unreduced
	type job struct {
		fn  *ssa.Function
		off string
	}
	seen := map[string]bool{}
	work := []job{{fn, off}}
	for len(work) > 0 {
		j := work[0]
		work = work[1:]
		if seen[fnKey(j.fn)+"/"+j.off] {
			continue
		}
		seen[fnKey(j.fn)+"/"+j.off] = true
		paths, err := w.Paths(j.fn)
		if err != nil {
			r.undecided(j.fn.Name(), w.Pos(j.fn.Pos()), err.Error())
			return
		}
		rc := newRedCtx(w, j.fn)
		var curPath *Path
		var usesOff func(t *T) bool
		usesOff = func(t *T) bool {
			return t.contains(func(x *T) bool {
				if x.Op == "loopvar" && curPath != nil {
					// a running position that starts at the offset
					if init, _, ok := loopVarSteps(w, j.fn, curPath, x); ok && init.Op != "loopvar" {
						return usesOff(init)
					}
				}
				return x.Op == "p" && x.S == j.off
			})
		}
		for _, p := range paths {
			curPath = p
			for i := range p.Events {
				e := &p.Events[i]
				var t *T
				what := ""
				if (e.Kind == "store" || e.Kind == "load") && e.LV != nil {
					if idx, _, ok := c.cell(e.LV); ok {
						t, what = idx, "core-index"
					}
				}
				if c.isPush(e) {
					t, what = e.Args[1], "initial-task"
				}
				if rep, ok := c.reportOf(e); ok && rep.Addr != nil {
					t, what = rep.Addr, "report-address"
				}
				if t == nil && e.Kind == "call" && e.Callee != nil && len(e.Callee.Blocks) > 0 && e.Callee.Pkg == j.fn.Pkg && len(e.Args) == len(e.Callee.Params) {
					for k, a := range e.Args {
						if !usesOff(a) {
							continue
						}
						if ok, _ := rc.reduced(a); !ok {
							work = append(work, job{e.Callee, e.Callee.Params[k].Name()})
						}
					}
				}
				if t == nil || !usesOff(t) {
					continue
				}
				sinks++
				good, why := rc.reduced(t)
				d.add(good, j.fn.Name()+"/"+what, c.posOf(e), why, "load offset reaches the "+what+" unreduced: "+why)
			}
		}
	}
	d.flush()
	if sinks == 0 {
		r.bad(fn.Name()+"/no-sink", w.Pos(fn.Pos()), "the load offset reaches no core index / push / report in the spawn routine")
	}
}

func ruleModLen(w *World, r *RuleResult) {
	c := newSimCtx(w)
	if len(c.a.Err) > 0 {
		r.undecided("anchors", "-", strings.Join(c.a.Err, "; "))
		return
	}
	d := newDedup(r)
	for _, fn := range libRoots(w) {
		paths, err := w.Paths(fn)
		if err != nil {
			continue
		}
		for _, p := range paths {
			for i := range p.Events {
				e := &p.Events[i]
				if e.Kind != "store" || e.LV.Op != "sel" || e.LV.S != c.a.MemField {
					continue
				}
				if bt := e.LV.A[0].Ty; bt == nil || !strings.Contains(typeName(bt), c.a.SimT.Obj().Name()) {
					continue
				}
				v := e.Val
				l := stripConv(v)
				if len(v.A) >= 1 {
					l = stripConv(v.A[0])
				}
				good := v.Op == "makeslice" && (c.isM(l) || isNewSimField(l, c.a.MField) || (l.Op == "sel" && l.A[0].Op == "p" && c.a.CfgMap[c.a.MField] == l.S && typeName(l.A[0].Ty) == "SimulatorConfig"))
				d.add(good, fn.Name()+"/"+c.a.MemField+"=", c.posOf(e), "make([]Instruction, M)", "core replaced by "+v.Show()+", whose length is not the core size")
			}
		}
	}
	d.flush()
}

func isNewSimField(t *T, f string) bool {
	return t.Op == "sel" && t.S == f && (t.A[0].Op == "new" || t.A[0].Op == "deref")
}

var _ = sort.Strings

func ruleModCfg(w *World, r *RuleResult) {}

// libRoots: the library functions analysed on their own (a helper that the
// explorer expands at every use is judged inside its callers instead).
func libRoots(w *World) []*ssa.Function { return w.rootFuncs(w.SLib) }
