package main

// Guard and wiring rules over the assembler and the load-file readers
// (C03 C05 C06 C07 C09 C10).

import (
	"fmt"
	"go/token"
	"go/types"
	"sort"
	"strings"

	"golang.org/x/tools/go/ssa"
)

func init() {
	register(&Rule{Name: "SIGNED.mod", Min: 4, Doc: "signed values become instruction fields only through v%M then (M+v)%M on v<0", Run: ruleSignedMod})
	register(&Rule{Name: "START.range", Min: 3, Doc: "every successful return has 0 <= Start < len(Code) (or 0 for empty code)", Run: ruleStartRange})
	register(&Rule{Name: "LEN.limit", Min: 1, Doc: "a successful assembly is no longer than the configured maximum length", Run: ruleLenLimit})
	register(&Rule{Name: "RET.xor", Min: 20, Doc: "functions returning (WarriorData, error) return the zero value with an error and a real value with nil", Run: ruleRetXor})
	register(&Rule{Name: "ERR.prop", Min: 30, Doc: "no error result of an assembler/loader callee is dropped", Run: ruleErrProp})
	register(&Rule{Name: "LINE.drop", Min: 2, Doc: "data returned together with a read error (unterminated last line) is processed, not dropped", Run: ruleLineDrop})
	register(&Rule{Name: "LINE.end", Min: 2, Doc: "a loader stops before the end of the input only at the end marker", Run: ruleLineEnd})
	register(&Rule{Name: "LINE.skip", Min: 4, Doc: "a loader line is skipped only if empty, a comment, or blank", Run: ruleLineSkip})
	register(&Rule{Name: "CYCLECHK.dom", Min: 3, Doc: "the EQU cycle check dominates every substitution fixpoint / recursive expansion", Run: ruleCycleChk})
	register(&Rule{Name: "WIRE.const", Min: 5, Doc: "predefined constants map to the configuration fields they name; parser and compiler agree on the set", Run: ruleWireConst})
	register(&Rule{Name: "WIRE.assert", Min: 4, Doc: "an assertion fails exactly on value 0; assertions are always evaluated; errors propagate", Run: ruleWireAssert})
	register(&Rule{Name: "WIRE.asm", Min: 8, Doc: "assembleLine: dialect readers, default modes, lone-operand rule, validator arguments", Run: ruleWireAsm})
	register(&Rule{Name: "LABEL.rel", Min: 4, Doc: "a label is substituted by (label line - referring line), sign emitted separately", Run: ruleLabelRel})
}

// ---------------------------------------------------------------- SIGNED.mod

// modulusOK: the modulus term is the core size (compiler field fed from
// config.CoreSize, or a parameter every caller feeds with a CoreSize field).
func modulusOK(w *World, fn *ssa.Function, m *T) (bool, string) {
	m = stripConv(m)
	if m.Op == "sel" && m.S == "CoreSize" && typeName(m.A[0].Ty) == "SimulatorConfig" {
		return true, "" // the configured core size itself
	}
	if m.Op == "sel" && m.A[0].Op == "deref" && m.A[0].A[0].Op == "p" {
		// compiler field: check the constructor stores config.CoreSize into it
		ctor := Asm(w).NewCompiler
		if ctor != nil {
			ps, _ := w.Paths(ctor)
			for _, p := range ps {
				for _, e := range p.Events {
					if e.Kind == "store" && e.LV.Op == "sel" && e.LV.S == m.S && e.LV.A[0].Op == "new" {
						v := stripConv(e.Val)
						if v.Op == "sel" && v.S == "CoreSize" {
							return true, ""
						}
						return false, "compiler modulus field " + m.S + " is initialised from " + v.Show()
					}
				}
			}
		}
		return false, "modulus field " + m.S + " is not initialised from the configured core size"
	}
	if m.Op == "p" {
		idx := -1
		for i, p := range fn.Params {
			if p.Name() == m.S {
				idx = i
			}
		}
		for _, callRoot := range w.CallerRoots(fn) {
			ps, _ := w.Paths(callRoot)
			for _, p := range ps {
				for _, e := range p.Events {
					if e.Kind == "call" && e.Callee == fn && idx >= 0 && idx < len(e.Args) {
						a := stripConv(e.Args[idx])
						if a.Op == "sel" && a.S == "CoreSize" {
							continue
						}
						if a.Op == "p" {
							if ok, msg := modulusOK(w, callRoot, a); ok {
								continue
							} else {
								return false, msg
							}
						}
						return false, callRoot.Name() + " passes " + a.Show() + " as the modulus"
					}
				}
			}
		}
		return true, ""
	}
	return false, "modulus " + m.Show() + " is not the core size"
}

// signedReduced: x (a signed term about to be converted to Address) is in [0,M).
func signedReduced(w *World, fn *ssa.Function, x *T, p *Path) (bool, string) {
	x = stripConv(x)
	if x.IsConst() && x.C >= 0 && x.C < 3 {
		return true, "small non-negative constant"
	}
	if x.Op != "rem" {
		return false, x.Show() + " is not reduced modulo the core size"
	}
	m := x.A[1]
	if ok, msg := modulusOK(w, fn, m); !ok {
		return false, msg
	}
	inner := stripConv(x.A[0])
	// (M + v%M) % M
	if inner.Op == "add" && len(inner.A) == 2 {
		for i := 0; i < 2; i++ {
			if inner.A[i].Show() == m.Show() {
				o := stripConv(inner.A[1-i])
				if o.Op == "rem" && o.A[1].Show() == m.Show() {
					return true, "(M + v%M) % M"
				}
			}
		}
	}
	// v % M with v%M >= 0 on this path
	if hasCond(p, func(a *T, v bool) bool {
		return (a.Op == "lt" && !v && a.A[0].Show() == x.Show() && a.A[1].IsConstVal(0)) || (a.Op == "le" && v && a.A[0].IsConstVal(0) && a.A[1].Show() == x.Show())
	}) {
		return true, "v % M on the v%M >= 0 edge"
	}
	if inner.IsConst() && inner.C >= 0 {
		return true, "non-negative constant % M"
	}
	return false, x.Show() + " can be negative (Go's % keeps the sign) and is converted to an unsigned field without the (M + v) % M correction"
}

func ruleSignedMod(w *World, r *RuleResult) {
	d := newDedup(r)
	c := newSimCtx(w)
	simFns := map[*ssa.Function]bool{}
	if c.a.Exec != nil {
		simFns[c.a.Exec] = true
		for _, h := range c.a.Helpers {
			simFns[h] = true
		}
	}
	pa := Asm(w).ParseAddress
	checkField := func(fn *ssa.Function, p *Path, f string, v *T, pos string) {
		v0 := stripEpoch(v)
		key := fmt.Sprintf("%s/Instruction.%s", fn.Name(), f)
		if v0.Op == "conv" && isSigned(v0.A[0].Ty) {
			ok, why := signedReduced(w, fn, v0.A[0], p)
			d.add(ok, key, pos, why, "field "+f+": "+why)
			return
		}
		x := stripConv(v0)
		if x.Op == "ext" && x.C == 1 && x.A[0].Op == "call" && pa != nil && x.A[0].S == fnKey(pa) {
			d.add(true, key, pos, "result of parseAddress (checked at its returns)", "")
			return
		}
		d.add(false, key, pos, "", "field "+f+" is built from "+x.Show()+", which is not a normalised value")
	}
	for _, fn := range libRoots(w) {
		if simFns[fn] || fn.Signature.Recv() != nil && strings.Contains(typeName(fn.Signature.Recv().Type()), "reportSim") {
			continue
		}
		paths, err := w.Paths(fn)
		if err != nil {
			continue
		}
		for _, p := range paths {
			visit := func(t *T, pos string) {
				t.walk(func(x *T) bool {
					if x.Op == "struct" && x.S == "Instruction" {
						nonzero := false
						for i := range x.N {
							if !(x.A[i].IsConstVal(0)) {
								nonzero = true
							}
						}
						if !nonzero {
							return false // Instruction{} on error returns
						}
						for i, n := range x.N {
							if n == "A" || n == "B" {
								checkField(fn, p, n, x.A[i], pos)
							}
						}
						return false
					}
					return true
				})
			}
			for i := range p.Events {
				e := &p.Events[i]
				pos := w.Pos(instrPosE(e))
				if e.Val != nil {
					visit(e.Val, pos)
				}
				for _, a := range e.Args {
					visit(a, pos)
				}
			}
		}
	}
	// parseAddress itself
	if pa != nil {
		paths, _ := w.Paths(pa)
		for _, p := range paths {
			if p.End == "ret" && len(p.Ret) == 2 && p.Ret[1].Op == "nil" {
				v := stripEpoch(p.Ret[0])
				if v.Op == "conv" {
					ok, why := signedReduced(w, pa, v.A[0], p)
					d.add(ok, "parseAddress/return", w.Pos(pa.Pos()), why, "parseAddress returns "+why)
				} else {
					d.add(false, "parseAddress/return", w.Pos(pa.Pos()), "", "parseAddress returns "+v.Show())
				}
			}
		}
	} else {
		r.undecided("parseAddress", "-", "not found")
	}
	d.flush()
}

func instrPosE(e *Event) token.Pos {
	if e.Pos.IsValid() {
		return e.Pos
	}
	if e.Instr != nil {
		return instrPos(e.Instr)
	}
	return e.Pos
}

// ---------------------------------------------------------------- START.range / LEN.limit / RET.xor

func warriorDataFuncs(w *World) []*ssa.Function {
	var out []*ssa.Function
	for _, fn := range libFuncs(w) {
		res := fn.Signature.Results()
		if res.Len() == 2 && typeName(res.At(0).Type()) == "WarriorData" && typeName(res.At(1).Type()) == "error" {
			out = append(out, fn)
		}
	}
	return out
}

func structField(t *T, f string) *T {
	if t.Op == "struct" {
		for i, n := range t.N {
			if n == f {
				return t.A[i]
			}
		}
		return nil
	}
	return &T{Op: "sel", S: f, A: []*T{t}}
}

func ruleStartRange(w *World, r *RuleResult) {
	d := newDedup(r)
	for _, fn := range warriorDataFuncs(w) {
		paths, err := w.Paths(fn)
		if err != nil {
			r.undecided(fn.Name(), w.Pos(fn.Pos()), err.Error())
			continue
		}
		producer := false
		for _, p := range paths {
			if p.End != "ret" || p.Ret[1].Op != "nil" {
				continue
			}
			v := p.Ret[0]
			if v.Op == "ext" || v.Op == "call" {
				continue // forwards a callee's pair
			}
			producer = true
			start, code := structField(v, "Start"), structField(v, "Code")
			if start == nil || code == nil {
				d.add(false, fn.Name()+"/shape", w.Pos(fn.Pos()), "", "returned value has no Start/Code")
				continue
			}
			sk, ck := stripEpoch(stripConv(start)).Key(), stripEpoch(code).Key()
			lenIs := func(t *T) bool {
				t = stripConv(t)
				return t.Op == "len" && stripEpoch(t.A[0]).Key() == ck
			}
			isStart := func(t *T) bool { return stripEpoch(stripConv(t)).Key() == sk }
			upper := start.IsConstVal(0) && false
			upper = hasCond(p, func(a *T, val bool) bool {
				// Start < len(Code): lt(Start,len)=true or le(len,Start)=false
				if a.Op == "lt" && val && isStart(a.A[0]) && lenIs(a.A[1]) {
					return true
				}
				if a.Op == "le" && !val && lenIs(a.A[0]) && isStart(a.A[1]) {
					return true
				}
				return false
			})
			// empty program: Start == 0 allowed: accept "Start != 0 && Start >= len" style: Start==0 edge
			zeroEdge := hasCond(p, func(a *T, val bool) bool {
				return a.Op == "eq" && val && isStart(a.A[0]) && a.A[1].IsConstVal(0)
			})
			pos := w.Pos(fn.Pos())
			if len(p.Conds) > 0 {
				pos = w.Pos(p.Conds[len(p.Conds)-1].Pos)
			}
			d.add(upper || zeroEdge || start.IsConstVal(0), fn.Name()+"/Start<len(Code)", pos, "success return dominated by Start < len(Code) (or Start == 0)", "a successful return is not dominated by a test implying Start < len(Code): an entry point one past the end (or beyond) is accepted")
			lower := start.IsConstVal(0) || zeroEdge || hasCond(p, func(a *T, val bool) bool {
				if a.Op == "lt" && !val && isStart(a.A[0]) && a.A[1].IsConstVal(0) {
					return true
				}
				if a.Op == "le" && val && a.A[0].IsConstVal(0) && isStart(a.A[1]) {
					return true
				}
				return false
			})
			if !lower {
				// store-site invariant: every store to the Start of the returned object stores 0 or a value tested >= 0
				lower = startStoresNonNegative(w, fn, d)
			}
			d.add(lower, fn.Name()+"/Start>=0", pos, "Start is 0 or tested non-negative wherever it is assigned", "a successful return can carry a negative entry point")
		}
		_ = producer
	}
	d.flush()
}

// startStoresNonNegative: in fn, each assignment to a WarriorData's Start field
// stores a constant >= 0 or a value v with a dominating v >= 0 test.
func startStoresNonNegative(w *World, fn *ssa.Function, d *dedup) bool {
	all := true
	n := 0
	paths, _ := w.Paths(fn)
	for _, b := range fn.Blocks {
		for _, in := range b.Instrs {
			st, ok := in.(*ssa.Store)
			if !ok {
				continue
			}
			fa, ok := st.Addr.(*ssa.FieldAddr)
			if !ok || derefStruct(fa.X.Type()).Field(fa.Field).Name() != "Start" {
				continue
			}
			n++
			if c, ok := st.Val.(*ssa.Const); ok {
				if t := constTerm(c); t.IsConst() && t.C >= 0 {
					continue
				}
			}
			// find paths through this block: all must have the guard on the stored value
			good := true
			seen := false
			for _, p := range paths {
				inBlock := false
				for _, bi := range p.Blocks {
					if bi == b.Index {
						inBlock = true
					}
				}
				if !inBlock {
					continue
				}
				seen = true
				// stored value term: look for conds lt(v,0)=false where conv(v) feeds the store; approximate by the value's operand
				var vt *T
				if cv, ok := st.Val.(*ssa.Convert); ok {
					vt = findRegTerm(p, cv.X)
				} else {
					vt = findRegTerm(p, st.Val)
				}
				if vt == nil {
					good = false
					continue
				}
				vk := stripEpoch(vt).Key()
				if !hasCond(p, func(a *T, val bool) bool {
					return a.Op == "lt" && !val && stripEpoch(a.A[0]).Key() == vk && a.A[1].IsConstVal(0)
				}) {
					good = false
				}
			}
			if !good || !seen {
				all = false
				d.add(false, fn.Name()+"/Start=", w.Pos(instrPos(st)), "", "Start is assigned a value that is not tested >= 0 on every path reaching the assignment (a negative entry point is accepted)")
			}
		}
	}
	return all && n > 0
}

// findRegTerm recovers the term an SSA value had on a path from the path's
// conditions and events (terms are not kept per register after exploration).
func findRegTerm(p *Path, v ssa.Value) *T {
	// The value is usually an Extract of a call: rebuild its key shape
	switch x := v.(type) {
	case *ssa.Extract:
		if call, ok := x.Tuple.(*ssa.Call); ok {
			for i := range p.Events {
				e := &p.Events[i]
				if e.Instr == call && e.Res != nil {
					return &T{Op: "ext", C: int64(x.Index) + 1, A: []*T{e.Res}}
				}
			}
		}
	case *ssa.Call:
		for i := range p.Events {
			if p.Events[i].Instr == x {
				return p.Events[i].Res
			}
		}
	}
	return nil
}

func ruleLenLimit(w *World, r *RuleResult) {
	fn := Asm(w).Compile
	if fn == nil {
		r.undecided("anchor", "-", "compile method not found")
		return
	}
	paths, err := w.Paths(fn)
	if err != nil {
		r.undecided(fn.Name(), w.Pos(fn.Pos()), err.Error())
		return
	}
	d := newDedup(r)
	isMax := func(t *T) bool { t = stripConv(t); return t.Op == "sel" && t.S == "Length" }
	// the comparison between a code length (or a count of emitted instructions) and the limit on a path
	// limitTest returns (found, exceeds): the path knows len ? Length; exceeds = "len > Length holds"
	limitTest := func(p *Path, isLen func(*T) bool) (found, over, exact bool) {
		for _, cd := range p.Conds {
			a := cd.Atom
			if a.Op != "lt" {
				continue
			}
			switch {
			case isMax(a.A[0]) && isLen(a.A[1]): // Length < len
				found, over, exact = true, cd.Val, true
			case isLen(a.A[0]) && isMax(a.A[1]): // len < Length   (its negation is len >= Length: not exact)
				found, over, exact = true, !cd.Val, false
			}
		}
		return
	}
	// the loop-carried code slice, if the program is built in a loop
	codeLV := ""
	for _, p := range paths {
		if p.End == "ret" && p.Ret[1].Op == "nil" {
			if code := structField(p.Ret[0], "Code"); code != nil && stripConv(code).Op == "loopvar" {
				codeLV = stripEpoch(stripConv(code)).Key()
			}
		}
	}
	anyLen := func(t *T) bool {
		t = stripConv(t)
		return t.Op == "len" && (typeName(t.A[0].Ty) == "[]Instruction")
	}
	// (a) bounded: either every success return is dominated by len(code) <= Length, or the test sits in the
	// loop after each append (every back edge that grew the code passed it)
	inLoop := false
	for _, p := range paths {
		if p.End != "backedge" {
			continue
		}
		if f, over, _ := limitTest(p, anyLen); f && !over {
			inLoop = true
		}
	}
	for _, p := range paths {
		if p.End != "ret" || p.Ret[1].Op != "nil" {
			continue
		}
		code := structField(p.Ret[0], "Code")
		if code == nil {
			continue
		}
		ck := stripEpoch(code).Key()
		isLen := func(t *T) bool { t = stripConv(t); return t.Op == "len" && stripEpoch(t.A[0]).Key() == ck }
		f, over, _ := limitTest(p, isLen)
		ok := (f && !over) || inLoop
		d.add(ok, fn.Name()+"/len(Code)<=Length", w.Pos(fn.Pos()), "success implies len(code) <= config.Length (tested before the return, or after every append)", "a successful assembly is not dominated by a test len(code) <= config.Length: programs longer than the configured maximum are accepted")
	}
	// (b) exact: a program is refused for its length only when it really exceeds the limit
	for _, p := range paths {
		if p.End != "ret" || p.Ret[1].Op == "nil" {
			continue
		}
		f, over, exact := limitTest(p, anyLen)
		if !f || !over {
			continue
		}
		// is the length test the reason for this error return? (it is the last condition of the path)
		last := p.Conds[len(p.Conds)-1].Atom
		if last.Op != "lt" || !(isMax(last.A[0]) || isMax(last.A[1])) {
			continue
		}
		pos := w.Pos(p.Conds[len(p.Conds)-1].Pos)
		d.add(exact, fn.Name()+"/refuses-only-longer", pos, "refused for its length only when len(code) > config.Length", "a program is refused when its length is >= the configured maximum: a program of exactly the maximum length no longer assembles")
	}
	_ = codeLV
	d.flush()
}

func isZeroWarrior(t *T) bool {
	if t.Op == "zero" {
		return true
	}
	if t.Op == "struct" {
		for _, a := range t.A {
			if !(a.IsConstVal(0) || (a.Op == "str" && a.S == "") || a.Op == "nil" || a.Op == "zero") {
				return false
			}
		}
		return true
	}
	return false
}

func ruleRetXor(w *World, r *RuleResult) {
	d := newDedup(r)
	for _, fn := range warriorDataFuncs(w) {
		paths, err := w.Paths(fn)
		if err != nil {
			r.undecided(fn.Name(), w.Pos(fn.Pos()), err.Error())
			continue
		}
		n := 0
		for _, p := range paths {
			if p.End != "ret" {
				continue
			}
			n++
			v, e := p.Ret[0], p.Ret[1]
			var retEv *Event
			for i := range p.Events {
				if p.Events[i].Kind == "ret" {
					retEv = &p.Events[i]
				}
			}
			pos := w.Pos(fn.Pos())
			if retEv != nil {
				pos = w.Pos(instrPosE(retEv))
			}
			key := fmt.Sprintf("%s/return@%s", fn.Name(), retKey(fn, retEv))
			switch {
			case v.Op == "ext" && e.Op == "ext" && v.A[0].Key() == e.A[0].Key():
				d.add(true, key, pos, "forwards a callee's (WarriorData, error) pair", "")
			case e.Op == "nil":
				d.add(!isZeroWarrior(v), key, pos, "nil error with a real warrior", "returns the empty WarriorData together with a nil error (neither error nor warrior)")
				if v.Op == "struct" && !isZeroWarrior(v) && fn == Asm(w).Compile {
					// could every field be its zero value at once?  Then this success is indistinguishable
					// from the value returned with an error.
					all := true
					for _, a := range v.A {
						if !maybeZero(w, fn, p, a, 0) {
							all = false
						}
					}
					d.add(!all, key+"/distinct", pos, "a successful result always differs from the zero WarriorData returned with errors", "every field of a successful result can be its zero value at once (for a source without instructions and metadata): the caller gets exactly the value that accompanies an error, neither an error nor a warrior")
				}
			default:
				d.add(isZeroWarrior(v), key, pos, "error with the zero WarriorData", "returns a non-empty WarriorData ("+v.Show()+") together with an error (both error and warrior)")
			}
		}
	}
	d.flush()
}

// retKey: ordinal of the return instruction inside its function.
func retKey(fn *ssa.Function, e *Event) string {
	if e == nil {
		return "?"
	}
	n := 0
	for _, b := range fn.Blocks {
		for _, in := range b.Instrs {
			if _, ok := in.(*ssa.Return); ok {
				n++
				if in == e.Instr {
					return fmt.Sprintf("%d", n)
				}
			}
		}
	}
	return "?"
}

// ---------------------------------------------------------------- ERR.prop

func ruleErrProp(w *World, r *RuleResult) {
	d := newDedup(r)
	c := newSimCtx(w)
	for _, fn := range libRoots(w) {
		// simulator's zombie-reap Pop handling is checked by PAIR.alive; skip nothing else
		paths, err := w.Paths(fn)
		if err != nil {
			continue
		}
		retsErr := false
		_ = retsErr
		res := fn.Signature.Results()
		if res.Len() > 0 && typeName(res.At(res.Len()-1).Type()) == "error" {
			retsErr = true
		}
		for _, p := range paths {
			for i := range p.Events {
				e := &p.Events[i]
				if e.Kind != "call" || e.Res == nil {
					continue
				}
				var sig *types.Signature
				if e.Callee != nil {
					sig = e.Callee.Signature
				} else if ci, ok := e.Instr.(ssa.CallInstruction); ok {
					sig = ci.Common().Signature()
				}
				if sig == nil || sig.Results().Len() == 0 {
					continue
				}
				rs := sig.Results()
				if typeName(rs.At(rs.Len()-1).Type()) != "error" {
					continue
				}
				name := e.Method
				if e.Callee != nil {
					name = e.Callee.Name()
					if e.Callee.Pkg != nil && e.Callee.Pkg != w.SLib && e.Callee.Pkg.Pkg.Path() == "fmt" {
						continue // fmt.Errorf constructs an error
					}
					if rc := e.Callee.Signature.Recv(); rc != nil && isTextBuilder(rc.Type()) {
						continue // writes into an in-memory builder: documented to always return a nil error
					}
				}
				if e.Res.Op == "tuple" && len(e.Res.A) > 0 && e.Res.A[len(e.Res.A)-1].Op == "nil" {
					continue // the explorer knows the error is nil (in-memory builder)
				}
				var errT *T
				if rs.Len() == 1 {
					errT = e.Res
				} else {
					errT = &T{Op: "ext", C: int64(rs.Len()), A: []*T{e.Res}}
				}
				ek := errT.Key()
				tested := false
				nonNil := false
				for _, cd := range p.Conds {
					if cd.Atom.Op == "eq" && cd.Atom.A[1].Op == "nil" && cd.Atom.A[0].Key() == ek {
						tested = true
						if !cd.Val {
							nonNil = true
						}
					}
				}
				returned := false
				mentioned := false
				if p.End == "ret" && len(p.Ret) > 0 {
					last := p.Ret[len(p.Ret)-1]
					if last.contains(func(x *T) bool { return x.Key() == ek }) {
						returned = true
					}
				}
				for j := i + 1; j < len(p.Events); j++ {
					e2 := &p.Events[j]
					for _, a := range e2.Args {
						if a.contains(func(x *T) bool { return x.Key() == ek }) {
							mentioned = true
						}
					}
					if e2.Val != nil && e2.Val.contains(func(x *T) bool { return x.Key() == ek }) {
						mentioned = true
					}
				}
				key := fmt.Sprintf("%s/%s", fn.Name(), siteKey(w, fn, e, "err-of-"+name))
				pos := c.posOf(e)
				if p.End != "ret" {
					// fragment ends at a back edge; a test may lie beyond it
					if tested {
						d.add(true, key, pos, "error tested on this path", "")
					}
					continue
				}
				switch {
				case returned:
					d.add(true, key, pos, "error returned to the caller", "")
				case tested && !nonNil:
					d.add(true, key, pos, "error tested; this is the nil edge", "")
				case tested && nonNil:
					d.add(true, key, pos, "error tested; this is the error edge (handled by the code that follows)", "")
				case mentioned:
					d.add(true, key, pos, "error value passed on", "")
				case e.Callee != nil && w.isPure(e.Callee) && !resultUsed(p, i, e.Res):
					// a pure query asked "would this succeed?": on this path neither its
					// value nor its verdict is used, so nothing is lost
					d.add(true, key, pos, "pure query; neither its value nor its error is used on this path", "")
				default:
					d.add(false, key, pos, "", "error result of "+name+" is neither tested nor returned on a path that continues: a failure would be silently dropped")
				}
			}
		}
	}
	d.flush()
}

// ---------------------------------------------------------------- LINE.drop / LINE.skip

func loaderFuncs(w *World) []*ssa.Function {
	// the readers: functions returning (WarriorData, error) whose exploration
	// contains a bufio read (directly or in a helper expanded in place)
	isWD := map[*ssa.Function]bool{}
	for _, fn := range warriorDataFuncs(w) {
		isWD[fn] = true
	}
	seen := map[*ssa.Function]bool{}
	var out []*ssa.Function
	for _, fn := range libFuncs(w) {
		reads := false
		for _, b := range fn.Blocks {
			for _, in := range b.Instrs {
				if ci, ok := in.(ssa.CallInstruction); ok {
					if cal := ci.Common().StaticCallee(); cal != nil && cal.Pkg != nil && cal.Pkg.Pkg.Path() == "bufio" && strings.HasPrefix(cal.Name(), "Read") {
						reads = true
					}
				}
			}
		}
		if !reads {
			continue
		}
		for _, root := range w.rootsOf(fn) {
			if isWD[root] && !seen[root] {
				seen[root] = true
				out = append(out, root)
			}
		}
	}
	sort.Slice(out, func(i, j int) bool { return out[i].String() < out[j].String() })
	return out
}

// callsWithin: root's exploration contains a call of callee (in root itself
// or in a helper expanded in place).
func callsWithin(w *World, root, callee *ssa.Function) bool {
	for _, call := range w.Callers(callee) {
		for _, r := range w.rootsOf(call.Parent()) {
			if r == root {
				return true
			}
		}
	}
	return false
}

func ruleLineDrop(w *World, r *RuleResult) {
	d := newDedup(r)
	for _, fn := range loaderFuncs(w) {
		paths, err := w.Paths(fn)
		if err != nil {
			r.undecided(fn.Name(), w.Pos(fn.Pos()), err.Error())
			continue
		}
		for _, p := range paths {
			for i := range p.Events {
				e := &p.Events[i]
				if e.Kind != "call" || e.Callee == nil || e.Callee.Pkg == nil || e.Callee.Pkg.Pkg.Path() != "bufio" || !strings.HasPrefix(e.Callee.Name(), "Read") {
					continue
				}
				data := &T{Op: "ext", C: 1, A: []*T{e.Res}}
				errT := &T{Op: "ext", C: 2, A: []*T{e.Res}}
				onErr := hasCond(p, func(a *T, v bool) bool {
					return a.Op == "eq" && a.A[1].Op == "nil" && a.A[0].Key() == errT.Key() && !v
				})
				if !onErr {
					continue
				}
				// on the error edge the data must be looked at (its length tested or content used)
				dk := data.Key()
				used := false
				for _, cd := range p.Conds {
					if cd.Atom.contains(func(x *T) bool { return x.Key() == dk }) {
						used = true
					}
				}
				for j := i + 1; j < len(p.Events); j++ {
					e2 := &p.Events[j]
					for _, a := range e2.Args {
						if a.contains(func(x *T) bool { return x.Key() == dk }) {
							used = true
						}
					}
					if e2.Val != nil && e2.Val.contains(func(x *T) bool { return x.Key() == dk }) {
						used = true
					}
				}
				d.add(used, fn.Name()+"/read-error-edge", w.Pos(instrPosE(e)), "the partial line returned with the error is examined", "on a read error the loop is left without looking at the data returned with it: bufio.Reader."+e.Callee.Name()+" returns the unterminated last line together with io.EOF, so a final line without newline is silently dropped")
			}
		}
	}
	d.flush()
}

// ruleLineEnd: a reader that returns successfully right after reading a line
// (a break out of the line loop) drops every line that follows.  That is what
// the end marker is for, and nothing else: the line must have been compared
// equal to "end" — or be the empty remainder at the end of the input.
func ruleLineEnd(w *World, r *RuleResult) {
	d := newDedup(r)
	for _, fn := range loaderFuncs(w) {
		paths, err := w.Paths(fn)
		if err != nil {
			continue
		}
		n := 0
		for _, p := range paths {
			if p.End != "ret" || len(p.Ret) == 0 || p.Ret[len(p.Ret)-1].Op != "nil" {
				continue
			}
			var line, rerr *T
			for i := range p.Events {
				e := &p.Events[i]
				if e.Kind == "call" && e.Callee != nil && e.Callee.Pkg != nil && e.Callee.Pkg.Pkg.Path() == "bufio" && e.Res != nil && e.Callee.Signature.Recv() != nil {
					line = &T{Op: "ext", C: 1, A: []*T{e.Res}}
					rerr = &T{Op: "ext", C: 2, A: []*T{e.Res}}
				}
			}
			if line == nil {
				continue // leaves the loop at its head: the input is exhausted
			}
			n++
			lk, ek := line.Key(), rerr.Key()
			atEnd := hasCond(p, func(a *T, v bool) bool {
				return a.Op == "eq" && v && ((a.A[1].Op == "str" && a.A[1].S == "end") || (a.A[0].Op == "str" && a.A[0].S == "end"))
			})
			exhausted := hasCond(p, func(a *T, v bool) bool {
				return a.Op == "eq" && !v && a.A[1].Op == "nil" && a.A[0].Key() == ek
			}) && hasCond(p, func(a *T, v bool) bool {
				return a.Op == "eq" && v && a.A[1].IsConstVal(0) && stripConv(a.A[0]).Op == "len" && stripConv(a.A[0]).A[0].Key() == lk
			})
			key := fmt.Sprintf("%s/stop/%s", fn.Name(), condsKeyShort(p))
			pos := w.Pos(fn.Pos())
			if len(p.Conds) > 0 {
				pos = w.Pos(p.Conds[len(p.Conds)-1].Pos)
			}
			d.add(atEnd || exhausted, key, pos, "reading stops here because the line is the end marker (or the input is exhausted)", "the reader returns successfully after a line that is not the end marker: every line after it is dropped silently")
		}
		if n == 0 {
			d.add(false, fn.Name()+"/stop/none", w.Pos(fn.Pos()), "", "no path of the reader stops at an end marker")
		}
	}
	d.flush()
}

func ruleLineSkip(w *World, r *RuleResult) {
	d := newDedup(r)
	for _, fn := range loaderFuncs(w) {
		paths, err := w.Paths(fn)
		if err != nil {
			continue
		}
		for _, p := range paths {
			if p.End != "backedge" {
				continue
			}
			// did this iteration read a line?
			var line *T
			for i := range p.Events {
				e := &p.Events[i]
				if e.Kind == "call" && e.Callee != nil && e.Callee.Pkg != nil && e.Callee.Pkg.Pkg.Path() == "bufio" {
					line = &T{Op: "ext", C: 1, A: []*T{e.Res}}
				}
			}
			if line == nil {
				continue
			}
			// effect: a store into the result (Code append / Start / metadata)
			effect := false
			for i := range p.Events {
				e := &p.Events[i]
				if e.Kind == "builtin" && e.Method == "append" {
					effect = true
				}
			}
			hdr := -1
			for _, e := range p.Events {
				if e.Kind == "enterloop" && e.Res != nil {
					hdr = int(e.Res.C)
				}
			}
			for _, b := range p.Blocks {
				if hdr < 0 || !fn.Blocks[hdr].Dominates(fn.Blocks[b]) {
					continue
				}
				for _, in := range fn.Blocks[b].Instrs {
					if st, ok := in.(*ssa.Store); ok {
						if fa, ok := st.Addr.(*ssa.FieldAddr); ok && typeName(fa.X.Type()) == "*WarriorData" {
							effect = true
						}
					}
				}
			}
			if effect {
				continue
			}
			lk := line.Key()
			reason := ""
			for _, cd := range p.Conds {
				a := cd.Atom
				if !cd.Val {
					continue
				}
				// len(line) == 0
				hasLine := func(t *T) bool { return t.contains(func(x *T) bool { return x.Key() == lk }) }
				if a.Op == "eq" && a.A[1].IsConstVal(0) && a.A[0].Op == "len" && hasLine(a.A[0].A[0]) && a.A[0].A[0].Op != "call" {
					reason = "empty line"
				}
				// line[0] == ';'
				if a.Op == "eq" && a.A[1].IsConstVal(';') && a.A[0].Op == "elem" && hasLine(a.A[0].A[0]) && stripConv(a.A[0].A[0]).Op != "call" && a.A[0].A[1].IsConstVal(0) {
					reason = "comment line"
				}
				// len(fields) == 0 where fields derives from the line
				if a.Op == "eq" && a.A[1].IsConstVal(0) && a.A[0].Op == "len" && a.A[0].A[0].Op == "call" && a.A[0].A[0].S == "strings.Fields" && a.A[0].contains(func(x *T) bool { return x.Key() == lk }) {
					// "no fields" means blank only if nothing but white space was removed before counting
					// them; where separators were replaced by spaces first, the path must also have
					// found that none was present
					removed := ""
					a.A[0].walk(func(x *T) bool {
						if x.Op == "call" && (x.S == "strings.ReplaceAll" || x.S == "strings.Replace") && len(x.A) >= 3 && x.A[1].Op == "str" && strings.TrimSpace(x.A[1].S) != "" {
							removed = x.A[1].S
						}
						return true
					})
					none := removed == "" || hasCond(p, func(b *T, bv bool) bool {
						return !bv && b.Op == "call" && strings.HasPrefix(b.S, "strings.Contains") && len(b.A) == 2 && b.A[1].Op == "str" && b.A[1].S == removed && b.A[0].contains(func(x *T) bool { return x.Key() == lk })
					})
					if none {
						reason = "blank line"
					}
				}
			}
			key := fmt.Sprintf("%s/skip/%s", fn.Name(), condsKeyShort(p))
			pos := w.Pos(fn.Pos())
			if len(p.Conds) > 0 {
				pos = w.Pos(p.Conds[len(p.Conds)-1].Pos)
			}
			d.add(reason != "", key, pos, "line consumed without effect because it is a(n) "+reason, "a line is consumed without contributing an instruction or directive and without being empty, a comment or blank: it is skipped silently")
		}
	}
	d.flush()
}

func condsKeyShort(p *Path) string {
	var ks []string
	for _, cd := range p.Conds {
		s := stripEpoch(cd.Atom).Key()
		if len(s) > 60 {
			s = s[:60]
		}
		if !cd.Val {
			s = "!" + s
		}
		ks = append(ks, s)
	}
	if len(ks) > 4 {
		ks = ks[len(ks)-4:]
	}
	return strings.Join(ks, "&")
}

// ---------------------------------------------------------------- CYCLECHK.dom

func ruleCycleChk(w *World, r *RuleResult) {
	chk := Asm(w).GraphCycle
	if chk == nil {
		r.undecided("anchor", "-", "graphContainsCycle not found")
		return
	}
	// danger sinks: functions containing a loop whose exit depends on a fixpoint of substitution, or direct recursion
	sinks := map[*ssa.Function]bool{}
	for _, fn := range libFuncs(w) {
		for _, b := range fn.Blocks {
			for _, in := range b.Instrs {
				if ci, ok := in.(ssa.CallInstruction); ok && ci.Common().StaticCallee() == fn {
					if fn != Asm(w).NodeCycle { // the cycle detector itself recurses over a visited list
						sinks[fn] = true
					}
				}
			}
		}
	}
	if f := Asm(w).ExpandExpr; f != nil {
		// substitution fixpoint: loop guarded by exprEqual(input, output)
		sinks[f] = true
	}
	if len(sinks) == 0 {
		r.undecided("sinks", "-", "no substitution fixpoint / recursive expander found")
		return
	}
	// danger = functions that can reach a sink
	danger := map[*ssa.Function]bool{}
	for s := range sinks {
		danger[s] = true
	}
	for changed := true; changed; {
		changed = false
		for _, fn := range libFuncs(w) {
			if danger[fn] {
				continue
			}
			for _, b := range fn.Blocks {
				for _, in := range b.Instrs {
					if ci, ok := in.(ssa.CallInstruction); ok {
						if cal := ci.Common().StaticCallee(); cal != nil && danger[cal] {
							danger[fn] = true
							changed = true
						}
						if g, ok := in.(*ssa.Go); ok {
							_ = g
						}
					}
				}
			}
		}
	}
	// guarded call sites
	type site struct {
		fn      *ssa.Function
		callee  *ssa.Function
		guarded bool
		pos     string
		key     string
	}
	var sites []*site
	bySite := map[string]*site{}
	for _, fn := range libRoots(w) {
		if !danger[fn] {
			continue
		}
		paths, err := w.Paths(fn)
		if err != nil {
			continue
		}
		for _, p := range paths {
			for i := range p.Events {
				e := &p.Events[i]
				if e.Kind != "call" || e.Callee == nil || !danger[e.Callee] || e.Callee == fn {
					continue
				}
				g := false
				for _, cd := range p.Conds {
					a := cd.Atom
					if a.Op == "ext" && a.C == 1 && a.A[0].Op == "call" && a.A[0].S == fnKey(chk) && !cd.Val {
						// the check must precede the call: compare call sequence numbers
						for j := 0; j < i; j++ {
							if p.Events[j].Kind == "call" && p.Events[j].Callee == chk {
								g = true
							}
						}
					}
				}
				k := siteKey(w, fn, e, "call-"+e.Callee.Name())
				s, ok := bySite[k]
				if !ok {
					s = &site{fn: fn, callee: e.Callee, guarded: true, pos: w.Pos(instrPosE(e)), key: k}
					bySite[k] = s
					sites = append(sites, s)
				}
				if !g {
					s.guarded = false
				}
			}
		}
	}
	// ud ("unguarded danger"): sinks, and functions with an unguarded call to a ud function.
	ud := map[*ssa.Function]bool{}
	via := map[*ssa.Function]*site{}
	for s := range sinks {
		ud[s] = true
	}
	for changed := true; changed; {
		changed = false
		for _, s := range sites {
			if !s.guarded && ud[s.callee] && !ud[s.fn] {
				ud[s.fn] = true
				via[s.fn] = s
				changed = true
			}
		}
	}
	sort.Slice(sites, func(i, j int) bool { return sites[i].key < sites[j].key })
	// obligations: (1) every call site that reaches a sink is either guarded or lies in a function that no
	// unguarded entry reaches; (2) every exported entry point that can reach a sink is not ud.
	entryReach := map[*ssa.Function]bool{}
	var mark func(f *ssa.Function)
	mark = func(f *ssa.Function) {
		if entryReach[f] {
			return
		}
		entryReach[f] = true
		for _, s := range sites {
			if s.fn == f && !s.guarded {
				mark(s.callee)
			}
		}
	}
	var entries []*ssa.Function
	for fn := range danger {
		if isExported(fn) {
			entries = append(entries, fn)
		}
	}
	sort.Slice(entries, func(i, j int) bool { return entries[i].Name() < entries[j].Name() })
	for _, e := range entries {
		if ud[e] {
			chain := []string{e.Name()}
			f := e
			pos := w.Pos(e.Pos())
			for via[f] != nil {
				pos = via[f].pos
				f = via[f].callee
				chain = append(chain, f.Name())
				if sinks[f] {
					break
				}
			}
			r.bad("entry/"+e.Name(), pos, fmt.Sprintf("%s reaches the substitution fixpoint / recursive expander through %s without passing the EQU cycle check first: a cyclic definition such as 'x equ x+1' (for instance together with ';assert x') never returns", e.Name(), strings.Join(chain, " -> ")))
			mark(e)
		} else {
			r.ok("entry/"+e.Name(), w.Pos(e.Pos()), "every route to a substitution fixpoint / recursive expander passes 'cycle check found no cycle'")
		}
	}
	for _, s := range sites {
		switch {
		case s.guarded:
			r.ok(s.key, s.pos, "dominated by 'cycle check found no cycle' on every path")
		case !ud[s.callee]:
			r.ok(s.key, s.pos, s.callee.Name()+" performs the cycle check itself before expanding")
		case entryReach[s.fn]:
			r.bad(s.key, s.pos, fmt.Sprintf("%s calls %s before the EQU cycle check (sinks: %s)", s.fn.Name(), s.callee.Name(), sinkNames(sinks)))
		default:
			r.ok(s.key, s.pos, "only reached from guarded call sites")
		}
	}
}

func sinkNames(m map[*ssa.Function]bool) string {
	var out []string
	for f := range m {
		out = append(out, f.Name())
	}
	sort.Strings(out)
	return strings.Join(out, ", ")
}

func isExported(fn *ssa.Function) bool {
	return fn.Object() != nil && fn.Object().Exported() && fn.Signature.Recv() == nil
}

// ---------------------------------------------------------------- WIRE.const / WIRE.assert

// varargsOf resolves the elements stored into a fresh slice/array literal on a path.
func elementsOf(p *Path, lit *T) map[string]*T {
	out := map[string]*T{}
	var root *T
	lit.walk(func(x *T) bool {
		if x.Op == "new" && root == nil {
			root = x
		}
		return root == nil
	})
	if root == nil {
		return out
	}
	for _, e := range p.Events {
		if e.Kind != "store" {
			continue
		}
		lv := e.LV
		path := ""
		for lv.Op == "sel" || lv.Op == "elem" {
			if lv.Op == "sel" {
				path = "." + lv.S + path
			} else {
				path = "[" + lv.A[1].Key() + "]" + path
			}
			lv = lv.A[0]
		}
		if lv.Key() == root.Key() {
			out[path] = e.Val
		}
	}
	return out
}

func ruleWireConst(w *World, r *RuleResult) {
	fn := Asm(w).LoadConstants
	if fn == nil {
		r.undecided("anchor", "-", "(*compiler).loadConstants not found")
		return
	}
	want := map[string]string{"CORESIZE": "CoreSize", "MAXLENGTH": "Length", "MAXPROCESSES": "Processes", "MINDISTANCE": "Distance"}
	got := map[string]string{}
	paths, err := w.Paths(fn)
	if err != nil {
		r.undecided("paths", w.Pos(fn.Pos()), err.Error())
		return
	}
	pos := w.Pos(fn.Pos())
	for _, p := range paths {
		for _, e := range p.Events {
			if e.Kind != "mapupdate" || e.Args[0].Op != "str" {
				continue
			}
			name := e.Args[0].S
			// value: []token{{tokNumber, Sprintf("%d", cfg.F)}}
			els := elementsOf(p, e.Val)
			field := "?"
			for path, v := range els {
				if !strings.HasSuffix(path, ".val") {
					continue
				}
				if v.Op == "call" && v.S == "fmt.Sprintf" && len(v.A) == 2 {
					va := elementsOf(p, v.A[1])
					for _, x := range va {
						x = stripConv(x)
						if x.Op == "iface" {
							x = stripConv(x.A[0])
						}
						if x.Op == "sel" {
							field = x.S
						} else {
							field = x.Show()
						}
					}
				} else {
					field = v.Show()
				}
			}
			got[name] = field
			pos = w.Pos(instrPosE(&e))
		}
	}
	for name, f := range want {
		g, ok := got[name]
		switch {
		case !ok:
			r.bad("const/"+name, pos, "predefined name "+name+" is not defined by the compiler")
		case g != f:
			r.bad("const/"+name, pos, fmt.Sprintf("%s is defined from configuration field %s; it must equal %s", name, g, f))
		default:
			r.ok("const/"+name, pos, name+" = config."+f)
		}
	}
	for name := range got {
		if _, ok := want[name]; !ok {
			r.note("additional predefined name %s", name)
		}
	}
	// parser's predefined set
	pf := Asm(w).LoadPredefined
	if pf == nil {
		r.undecided("parser", "-", "(*parser).loadPredefinedSymbols not found")
		return
	}
	pp, _ := w.Paths(pf)
	pset := map[string]bool{}
	for _, p := range pp {
		for _, e := range p.Events {
			if e.Kind == "mapupdate" && e.Args[0].Op == "str" {
				pset[e.Args[0].S] = true
			}
		}
	}
	same := len(pset) == len(got)
	for n := range got {
		if !pset[n] {
			same = false
		}
	}
	r.check(same, "parser-set", w.Pos(pf.Pos()), "parser and compiler predefine the same names", fmt.Sprintf("parser predefines %v but the compiler defines %v: a name known to one is unresolved in the other", keysOf(pset), keysOfS(got)))
}

func keysOf(m map[string]bool) []string {
	var out []string
	for k := range m {
		out = append(out, k)
	}
	sort.Strings(out)
	return out
}
func keysOfS(m map[string]string) []string {
	var out []string
	for k := range m {
		out = append(out, k)
	}
	sort.Strings(out)
	return out
}

func ruleWireAssert(w *World, r *RuleResult) {
	ea := Asm(w).EvalAssertion
	eas := Asm(w).EvalAssertions
	comp := Asm(w).Compile
	ev := Asm(w).EvalExpr
	if ea == nil || eas == nil || comp == nil || ev == nil {
		r.undecided("anchor", "-", "assertion functions not found")
		return
	}
	paths, _ := w.Paths(ea)
	for _, p := range paths {
		if p.End != "ret" {
			continue
		}
		// find the evaluated value term
		var val *T
		for _, e := range p.Events {
			if e.Kind == "call" && e.Callee == ev {
				val = &T{Op: "ext", C: 1, A: []*T{e.Res}}
			}
		}
		if val == nil {
			continue // earlier error returns (ERR.prop)
		}
		evalOK := hasCond(p, func(a *T, v bool) bool {
			return a.Op == "eq" && v && a.A[1].Op == "nil" && a.A[0].Op == "ext" && a.A[0].C == 2 && a.A[0].A[0].Key() == val.A[0].Key()
		})
		if !evalOK {
			continue
		}
		isZero, tested := false, false
		for _, cd := range p.Conds {
			if cd.Atom.Op == "eq" && cd.Atom.A[1].IsConstVal(0) && cd.Atom.A[0].Key() == val.Key() {
				tested, isZero = true, cd.Val
			}
		}
		pos := w.Pos(ea.Pos())
		if len(p.Conds) > 0 {
			pos = w.Pos(p.Conds[len(p.Conds)-1].Pos)
		}
		if !tested {
			r.bad("assertion/untested", pos, "an evaluated assertion value is not compared with 0")
			continue
		}
		failed := p.Ret[0].Op != "nil"
		if isZero {
			r.check(failed, "assertion/value==0", pos, "value 0 rejects the program", "an assertion that evaluates to 0 is accepted")
		} else {
			r.check(!failed, "assertion/value!=0", pos, "non-zero value accepts", "an assertion that evaluates to a non-zero value is rejected")
		}
	}
	// evaluateAssertions: the prefix test and the call
	ps2, _ := w.Paths(eas)
	called := false
	for _, p := range ps2 {
		for _, e := range p.Events {
			if e.Kind == "call" && e.Callee == ea {
				called = true
				pre := hasCond(p, func(a *T, v bool) bool {
					if a.Op == "ext" && a.C == 2 && v && len(a.A) == 1 && a.A[0].Op == "call" && a.A[0].S == "strings.CutPrefix" && len(a.A[0].A) == 2 && a.A[0].A[1].Op == "str" && a.A[0].A[1].S == ";assert" {
						return true // the found flag of strings.CutPrefix
					}
					return a.Op == "call" && a.S == "strings.HasPrefix" && v && len(a.A) == 2 && a.A[1].Op == "str" && a.A[1].S == ";assert"
				})
				r.check(pre, "assertions/prefix", w.Pos(instrPosE(&e)), "lines starting with ;assert are evaluated", "evaluateAssertion is not guarded by the ;assert prefix test")
				// the text passed is the comment minus the 7-byte prefix
				arg := e.Args[1]
				good := arg.Op == "slice" && arg.A[1].IsConstVal(7)
				// or the remainder strings.CutPrefix(comment, ";assert") hands back
				if a := stripConv(arg); a.Op == "ext" && a.C == 1 && len(a.A) == 1 && a.A[0].Op == "call" && a.A[0].S == "strings.CutPrefix" && len(a.A[0].A) == 2 && a.A[0].A[1].Op == "str" && a.A[0].A[1].S == ";assert" {
					good = true
				}
				if a := stripConv(arg); a.Op == "call" && a.S == "strings.TrimPrefix" && len(a.A) == 2 && a.A[1].Op == "str" && a.A[1].S == ";assert" {
					good = true
				}
				r.check(good, "assertions/text", w.Pos(instrPosE(&e)), "expression text = comment[7:]", "assertion text passed is "+arg.Show()+", not the comment after ';assert'")
			}
		}
	}
	r.check(called, "assertions/called", w.Pos(eas.Pos()), "every comment line is offered to the assertion evaluator", "evaluateAssertions never evaluates an assertion")
	// every assertion is evaluated: the driver leaves its loop after an evaluation only with that evaluation's error
	for _, p := range ps2 {
		if p.End != "ret" || len(p.Ret) != 1 {
			continue
		}
		var res *T
		var at *Event
		for i := range p.Events {
			if e := &p.Events[i]; e.Kind == "call" && e.Callee == ea {
				res, at = e.Res, e
			}
		}
		if res == nil {
			continue
		}
		nonNil := hasCond(p, func(a *T, v bool) bool {
			return a.Op == "eq" && !v && a.A[1].Op == "nil" && a.A[0].Key() == res.Key()
		})
		r.check(nonNil && p.Ret[0].Op != "nil", "assertions/all", w.Pos(instrPosE(at)), "the driver returns right after an evaluation only when it failed; otherwise it goes on to the next assertion", "the assertion driver returns after evaluating an assertion without knowing that it failed: later ;assert lines are never evaluated (a program whose second assertion is zero is accepted)")
	}
	// compile: every successful return evaluated the assertions and found nil
	ps3, _ := w.Paths(comp)
	for _, p := range ps3 {
		if p.End != "ret" || p.Ret[1].Op != "nil" {
			continue
		}
		ok := hasCond(p, func(a *T, v bool) bool {
			return a.Op == "eq" && v && a.A[1].Op == "nil" && a.A[0].Op == "call" && a.A[0].S == fnKey(eas)
		})
		r.check(ok, "compile/assertions-hold", w.Pos(comp.Pos()), "success implies evaluateAssertions() == nil", "compile can succeed without having evaluated the assertions")
	}
}

// ---------------------------------------------------------------- WIRE.asm / LABEL.rel

func ruleWireAsm(w *World, r *RuleResult) {
	fn := Asm(w).AssembleLine
	if fn == nil {
		r.undecided("anchor", "-", "(*compiler).assembleLine not found")
		return
	}
	paths, err := w.Paths(fn)
	if err != nil {
		r.undecided("paths", w.Pos(fn.Pos()), err.Error())
		return
	}
	am := map[string]int64{}
	for v, n := range w.EnumValues("AddressMode") {
		am[n] = v
	}
	oc := map[string]int64{}
	for v, n := range w.EnumValues("OpCode") {
		oc[n] = v
	}
	sm := map[string]int64{}
	for v, n := range w.EnumValues("SimulatorMode") {
		sm[n] = v
	}
	in := fn.Params[1].Name()
	inField := func(t *T, f string) bool {
		t = stripConv(t)
		return t.Op == "sel" && t.S == f && t.A[0].Op == "p" && t.A[0].S == in
	}
	callRes := func(t *T, name string, idx int64) (*T, bool) {
		t = stripConv(t)
		if t.Op == "ext" && t.C == idx && t.A[0].Op == "call" && t.A[0].S == name {
			return t.A[0], true
		}
		return nil, false
	}
	d := newDedup(r)
	pos := w.Pos(fn.Pos())
	n := 0
	for _, p := range paths {
		if p.End != "ret" || len(p.Ret) != 2 || p.Ret[1].Op != "nil" {
			continue
		}
		n++
		v := p.Ret[0]
		if v.Op != "struct" {
			d.add(false, "shape", pos, "", "success return is not an Instruction literal")
			continue
		}
		get := func(f string) *T { return structField(v, f) }
		is88 := hasCond(p, func(a *T, val bool) bool {
			return a.Op == "eq" && val && a.A[1].IsConstVal(sm["ICWS88"]) && stripConv(a.A[0]).Op == "sel" && stripConv(a.A[0]).S == "Mode"
		})
		not88 := hasCond(p, func(a *T, val bool) bool {
			return a.Op == "eq" && !val && a.A[1].IsConstVal(sm["ICWS88"]) && stripConv(a.A[0]).Op == "sel" && stripConv(a.A[0]).S == "Mode"
		})
		datText := hasCond(p, func(a *T, val bool) bool {
			return a.Op == "eq" && val && a.A[1].Op == "str" && a.A[1].S == "dat" && a.A[0].Op == "call" && a.A[0].S == "strings.ToLower" && inField(a.A[0].A[0], "op")
		})
		condStrEmpty := func(f string) (bool, bool) {
			for _, cd := range p.Conds {
				if cd.Atom.Op == "eq" && cd.Atom.A[1].Op == "str" && cd.Atom.A[1].S == "" && inField(cd.Atom.A[0], f) {
					return cd.Val, true
				}
			}
			return false, false
		}
		// expected pre-swap modes
		modeOf := func(f string) (want string, t *T) {
			empty, known := condStrEmpty(f)
			if !known {
				return "?", nil
			}
			if empty {
				if is88 && datText {
					return "const:IMMEDIATE", tconst(am["IMMEDIATE"], nil)
				}
				return "const:DIRECT", tconst(am["DIRECT"], nil)
			}
			return "reader(" + f + ")", nil
		}
		wantA, constA := modeOf("amode")
		wantB, constB := modeOf("bmode")
		isReader := func(t *T, f string) bool {
			for _, rf := range []*ssa.Function{Asm(w).ModeReader, Asm(w).ModeReader88} {
				if c, ok := callRes(t, fnKey(rf), 1); ok && len(c.A) == 1 && inField(c.A[0], f) {
					return true // which dialect's reader is TAB.legal88's business
				}
			}
			return false
		}
		matchMode := func(got *T, want string, ct *T, f string) bool {
			if ct != nil {
				return got.IsConstVal(ct.C)
			}
			return isReader(got, f)
		}
		// lone operand?
		loneKnown, lone := false, false
		for _, cd := range p.Conds {
			if cd.Atom.Op == "eq" && cd.Atom.A[1].IsConstVal(0) && cd.Atom.A[0].Op == "len" && inField(cd.Atom.A[0].A[0], "b") {
				loneKnown, lone = true, cd.Val
			}
		}
		opT := get("Op")
		isDat, datKnown := false, false
		for _, cd := range p.Conds {
			if cd.Atom.Op == "eq" && cd.Atom.A[1].IsConstVal(oc["DAT"]) && cd.Atom.A[0].Key() == opT.Key() {
				isDat, datKnown = cd.Val, true
			}
		}
		if set, ok := p.Sets[opT.Key()]; ok {
			datKnown = true
			isDat = set == 1<<uint(oc["DAT"])
		}
		tag := map[bool]string{true: "88", false: "94"}[is88]
		if !is88 && !not88 {
			d.add(false, "dialect-split", pos, "", "a success path does not test the configured dialect")
			continue
		}
		// opcode / modifier provenance
		if is88 {
			c1, ok1 := callRes(opT, fnKey(Asm(w).OpReader88), 1)
			d.add(ok1 && inField(c1.A[0], "op"), "88/opcode-reader", pos, "opcode read with the '88 reader", "under ICWS'88 the opcode is "+opT.Show()+", not the result of the '88 opcode reader on the source opcode")
			c2, ok2 := callRes(get("OpMode"), fnKey(Asm(w).Validate88), 1)
			good := ok2 && len(c2.A) == 3 && c2.A[0].Key() == opT.Key() && matchMode(c2.A[1], wantA, constA, "amode") && matchMode(c2.A[2], wantB, constB, "bmode")
			d.add(good, "88/validator-args", pos, "modifier = validate88(opcode, A-mode, B-mode) with the modes written in the source (or their defaults)", "under ICWS'88 the modifier is "+get("OpMode").Show()+": the validator is not applied to (opcode, source A-mode, source B-mode)")
		} else {
			if c1, ok := callRes(opT, fnKey(Asm(w).Op94), 1); ok {
				c2, ok2 := callRes(get("OpMode"), fnKey(Asm(w).Op94), 2)
				d.add(ok2 && c2.Key() == c1.Key() && inField(c1.A[0], "op"), "94/explicit-modifier", pos, "opcode.modifier read together from the source", "explicit modifier and opcode come from different reads")
			} else {
				c1, ok1 := callRes(opT, fnKey(Asm(w).OpReader), 1)
				d.add(ok1 && inField(c1.A[0], "op"), "94/opcode-reader", pos, "opcode read with the '94 reader", "opcode is "+opT.Show())
				c2, ok2 := callRes(get("OpMode"), fnKey(Asm(w).Default94), 1)
				good := ok2 && len(c2.A) == 3 && c2.A[0].Key() == opT.Key() && matchMode(c2.A[1], wantA, constA, "amode") && matchMode(c2.A[2], wantB, constB, "bmode")
				d.add(good, "94/default-modifier-args", pos, "default modifier = table(opcode, A-mode, B-mode)", "the default modifier is computed from "+get("OpMode").Show()+", not from (opcode, A-mode, B-mode) in this order")
			}
		}
		if !loneKnown {
			d.add(false, tag+"/lone-test", pos, "", "a success path does not test whether a B operand is present")
			continue
		}
		aV, bV := get("A"), get("B")
		valFrom := func(t *T, f string) bool {
			// conv:Address(rem(...evaluateExpression(expandExpression(c, in.f, in.codeLine))...))
			return t.contains(func(x *T) bool {
				if x.Op == "call" && x.S == fnKey(Asm(w).ExpandExpr) && len(x.A) == 3 {
					return inField(x.A[1], f) && inField(x.A[2], "codeLine")
				}
				return false
			}) && t.contains(func(x *T) bool { return x.Op == "call" && x.S == fnKey(Asm(w).EvalExpr) })
		}
		isZeroVal := func(t *T) bool {
			t = stripConv(t)
			return t.IsConstVal(0) || (t.Op == "rem" && stripConv(t.A[0]).IsConstVal(0))
		}
		switch {
		case lone && datKnown && isDat:
			good := get("AMode").IsConstVal(am["IMMEDIATE"]) && isZeroVal(aV) && matchMode(get("BMode"), wantA, constA, "amode") && valFrom(bV, "a")
			d.add(good, tag+"/lone-operand-DAT", pos, "DAT x  ==  DAT #0, x (operand and its mode moved to the B-field)", fmt.Sprintf("single-operand DAT assembles to A=%s%s B=%s%s instead of A=#0, B=<operand with its mode>", get("AMode").Show(), aV.Show(), get("BMode").Show(), bV.Show()))
		case lone:
			good := matchMode(get("AMode"), wantA, constA, "amode") && valFrom(aV, "a") && isZeroVal(bV) && matchMode(get("BMode"), wantB, constB, "bmode")
			d.add(good, tag+"/lone-operand-other", pos, "op x  ==  op x, $0", "a single-operand non-DAT instruction does not assemble to (operand, $0)")
		default:
			good := matchMode(get("AMode"), wantA, constA, "amode") && matchMode(get("BMode"), wantB, constB, "bmode") && valFrom(aV, "a") && valFrom(bV, "b")
			d.add(good, tag+"/two-operands", pos, "A/B modes and values come from the A/B operand text respectively", "with two operands, the A/B fields are not (A-mode, A-expression, B-mode, B-expression) of the source line")
		}
	}
	d.flush()
	if n == 0 {
		r.bad("no-success-path", pos, "assembleLine has no successful return")
	}
}

func ruleLabelRel(w *World, r *RuleResult) {
	fn := Asm(w).ExpandExpr
	if fn == nil {
		r.undecided("anchor", "-", "symbol expander not found")
		return
	}
	paths, err := w.Paths(fn)
	if err != nil {
		r.undecided("paths", w.Pos(fn.Pos()), err.Error())
		return
	}
	line := fn.Params[2].Name()
	d := newDedup(r)
	found := 0
	for _, p := range paths {
		// label lookup on this path
		var lbl *T
		for _, cd := range p.Conds {
			a := cd.Atom
			if a.Op == "ext" && a.C == 2 && cd.Val && a.A[0].Op == "lookup" && strings.Contains(a.A[0].A[0].Show(), "labels") {
				lbl = &T{Op: "ext", C: 1, A: []*T{a.A[0]}}
			}
		}
		if lbl == nil {
			continue
		}
		// numbers emitted: Sprintf("%d", X)
		for i := range p.Events {
			e := &p.Events[i]
			if e.Kind != "call" || e.Callee == nil || fnKey(e.Callee) != "fmt.Sprintf" || !e.Args[0].IsConstVal(0) && e.Args[0].Op != "str" {
				continue
			}
			els := elementsOf(p, e.Args[1])
			for _, x := range els {
				x = stripConv(x)
				if x.Op == "iface" {
					x = stripConv(x.A[0])
				}
				found++
				neg := false
				if x.Op == "neg" {
					neg = true
					x = stripConv(x.A[0])
				}
				good := false
				why := ""
				if x.Op == "rem" {
					l := linearOf(x.A[0])
					good = l.Const == 0 && len(l.Coef) == 2
					for k, cf := range l.Coef {
						a := l.Atom[k]
						switch {
						case stripEpoch(a).Key() == stripEpoch(lbl).Key():
							good = good && cf == 1
						case a.Op == "p" && a.S == line:
							good = good && cf == -1
						default:
							good = false
						}
					}
					why = l.String()
				} else {
					why = x.Show()
				}
				isNegEdge := hasCond(p, func(a *T, v bool) bool {
					return a.Op == "lt" && v && a.A[1].IsConstVal(0) && stripEpoch(a.A[0]).Key() == stripEpoch(x).Key()
				})
				nonNegEdge := hasCond(p, func(a *T, v bool) bool {
					return a.Op == "lt" && !v && a.A[1].IsConstVal(0) && stripEpoch(a.A[0]).Key() == stripEpoch(x).Key()
				})
				edgeOK := (neg && isNegEdge) || (!neg && nonNegEdge)
				key := "label-number/" + map[bool]string{true: "negative", false: "non-negative"}[isNegEdge]
				d.add(good && edgeOK, key, w.Pos(instrPosE(e)), "emits (label - line) % M with the sign as a separate token", "a label reference is replaced by "+why+map[bool]string{true: " (negated)", false: ""}[neg]+" on the "+map[bool]string{true: "negative", false: "non-negative"}[isNegEdge]+" edge; it must be the signed offset label - referring line, so that expressions using / or % see the true offset")
				if neg {
					// the minus sign token must be emitted too
					minus := false
					for _, e2 := range p.Events {
						if e2.Kind == "store" && e2.Val.contains(func(x *T) bool { return x.Op == "str" && x.S == "-" }) {
							minus = true
						}
					}
					d.add(minus, "label-number/minus-token", w.Pos(instrPosE(e)), "'-' token emitted before the magnitude", "the magnitude of a negative offset is emitted without its '-' token")
				}
			}
		}
	}
	if found == 0 {
		d.add(false, "label-number/none", w.Pos(fn.Pos()), "", "no path substitutes a number for a label")
	}
	// callers pass the referring line's own code-line index (0 for start/assert expressions)
	for _, callRoot := range w.CallerRoots(fn) {
		ps, _ := w.Paths(callRoot)
		for _, p := range ps {
			for i := range p.Events {
				e := &p.Events[i]
				if e.Kind != "call" || e.Callee != fn {
					continue
				}
				a := stripConv(e.Args[2])
				exprArg := stripConv(e.Args[1])
				good := a.IsConstVal(0)
				if a.Op == "sel" && a.S == "codeLine" && exprArg.Op == "sel" && exprArg.A[0].Key() == a.A[0].Key() {
					good = true
				}
				d.add(good, callRoot.Name()+"/line-arg/"+exprArg.Show(), w.Pos(instrPosE(e)), "referring line index passed with its own expression (0 for ORG/END/assert)", "expandExpression is given line "+a.Show()+" for expression "+exprArg.Show()+": labels would be relative to the wrong line")
			}
		}
	}
	d.flush()
}

// resultUsed: does anything after event i on path p (a later argument, stored
// value, condition or the return) mention the result res of the call?
func resultUsed(p *Path, i int, res *T) bool {
	if res == nil {
		return false
	}
	k := res.Key()
	has := func(t *T) bool {
		return t != nil && t.contains(func(x *T) bool { return x.Key() == k })
	}
	for j := i + 1; j < len(p.Events); j++ {
		e := &p.Events[j]
		for _, a := range e.Args {
			if has(a) {
				return true
			}
		}
		if has(e.Val) || has(e.LV) {
			return true
		}
	}
	for _, cd := range p.Conds {
		if has(cd.Atom) {
			return true
		}
	}
	for _, r := range p.Ret {
		if has(r) {
			return true
		}
	}
	return false
}

// maybeZero: can term t (a field of a returned struct on path p of fn) be the
// zero value of its type?  Allocations and append results cannot; a
// loop-carried value can if its entry value or a back-edge value can;
// anything unknown can.
func maybeZero(w *World, fn *ssa.Function, p *Path, t *T, depth int) bool {
	t = stripConv(t)
	switch t.Op {
	case "makeslice", "makemap", "new", "alloc", "addr", "closure", "fn":
		return false
	case "builtin":
		if t.S == "append" {
			return false // append never returns nil when it has something to append; with nothing, it returns its first argument
		}
	case "str":
		return t.S == ""
	case "c":
		return t.C == 0
	case "slice":
		if len(t.A) > 0 {
			return maybeZero(w, fn, p, t.A[0], depth+1)
		}
	case "loopvar":
		if depth > 3 {
			return true
		}
		phiIdx, n := -1, 0
		for _, in := range fn.Blocks[int(t.C)].Instrs {
			if ph, ok := in.(*ssa.Phi); ok {
				if ph.Comment == t.S {
					phiIdx = n
				}
				n++
			}
		}
		if phiIdx < 0 {
			return true
		}
		for i := range p.Events {
			if e := &p.Events[i]; e.Kind == "enterloop" && e.Res.C == t.C && phiIdx < len(e.Args) {
				if maybeZero(w, fn, p, e.Args[phiIdx], depth+1) {
					return true
				}
			}
		}
		paths, err := w.Paths(fn)
		if err != nil {
			return true
		}
		for _, q := range paths {
			if q.End != "backedge" {
				continue
			}
			be := q.Events[len(q.Events)-1]
			if be.Res.C != t.C || phiIdx >= len(be.Args) {
				continue
			}
			a := stripConv(be.Args[phiIdx])
			if a.Key() == t.Key() {
				continue // unchanged on this back edge
			}
			if maybeZero(w, fn, q, a, depth+1) {
				return true
			}
		}
		return false
	}
	return true
}
