package main

// Symbolic terms: the abstract domain shared by all path-sensitive rules.
// A term denotes the value an SSA register holds on one explored path,
// expressed over parameters, heap loads (tagged with the path epoch at which
// they were read), constants and arithmetic.  Terms are compared by canonical
// key; no solver is involved.

import (
	"fmt"
	"go/types"
	"sort"
	"strings"
)

type T struct {
	Op string // see constructors below
	S  string // name: parameter, field, callee, type
	C  int64  // constant value / ids
	E  int    // epoch of a heap load (0 = stable)
	A  []*T
	N  []string // field names for "struct"
	Ty types.Type
	FV map[string]int // struct-typed heap load: per-field version at load time (see mksel)
	k  string
}

func (t *T) Key() string {
	if t == nil {
		return "<nil>"
	}
	if t.k != "" {
		return t.k
	}
	var b strings.Builder
	switch t.Op {
	case "c":
		fmt.Fprintf(&b, "%d", t.C)
	case "str":
		fmt.Fprintf(&b, "%q", t.S)
	case "p":
		fmt.Fprintf(&b, "%s", t.S)
	case "sel":
		fmt.Fprintf(&b, "%s.%s", t.A[0].Key(), t.S)
	case "deref":
		fmt.Fprintf(&b, "*%s", t.A[0].Key())
	case "elem":
		fmt.Fprintf(&b, "%s[%s]", t.A[0].Key(), t.A[1].Key())
	case "struct":
		b.WriteString(t.S + "{")
		for i, a := range t.A {
			if i > 0 {
				b.WriteString(",")
			}
			b.WriteString(t.N[i] + ":" + a.Key())
		}
		b.WriteString("}")
	default:
		b.WriteString(t.Op)
		if t.S != "" {
			b.WriteString(":" + t.S)
		}
		if t.C != 0 {
			fmt.Fprintf(&b, "#%d", t.C)
		}
		if len(t.A) > 0 {
			b.WriteString("(")
			for i, a := range t.A {
				if i > 0 {
					b.WriteString(",")
				}
				b.WriteString(a.Key())
			}
			b.WriteString(")")
		}
	}
	if t.E != 0 {
		fmt.Fprintf(&b, "@%d", t.E)
	}
	t.k = b.String()
	return t.k
}

// Show is Key without epochs (for reports and for epoch-insensitive matching).
func (t *T) Show() string {
	return stripEpoch(t).Key()
}

func stripEpoch(t *T) *T {
	if t == nil {
		return nil
	}
	changed := t.E != 0
	args := make([]*T, len(t.A))
	for i, a := range t.A {
		args[i] = stripEpoch(a)
		if args[i] != a {
			changed = true
		}
	}
	if !changed {
		return t
	}
	n := *t
	n.E = 0
	n.A = args
	n.k = ""
	return &n
}

func tconst(c int64, ty types.Type) *T { return &T{Op: "c", C: c, Ty: ty} }
func tstr(s string) *T                 { return &T{Op: "str", S: s} }
func tparam(name string, ty types.Type) *T {
	return &T{Op: "p", S: name, Ty: ty}
}
func tunk(what string, id int64, ty types.Type) *T {
	return &T{Op: "unk", S: what, C: id, Ty: ty}
}

func (t *T) IsConst() bool { return t != nil && t.Op == "c" }
func (t *T) IsConstVal(c int64) bool {
	return t != nil && t.Op == "c" && t.C == c
}

// mksel selects a field of a struct value.
func mksel(x *T, f string, ty types.Type) *T {
	if x.Op == "struct" {
		for i, n := range x.N {
			if n == f {
				return x.A[i]
			}
		}
	}
	if x.Op == "zero" {
		return zeroOf(ty)
	}
	if x.E != 0 && x.FV != nil {
		// a field of a struct loaded as a whole is the field loaded at that moment:
		// `t := p.tok; t.typ` and `p.tok.typ` are one term
		base := *x
		base.E, base.FV, base.k = 0, nil, ""
		return &T{Op: "sel", S: f, A: []*T{&base}, E: x.E + x.FV[f], Ty: ty}
	}
	return &T{Op: "sel", S: f, A: []*T{x}, Ty: ty}
}

func zeroOf(ty types.Type) *T {
	if ty != nil {
		switch u := ty.Underlying().(type) {
		case *types.Basic:
			if u.Info()&(types.IsInteger|types.IsBoolean) != 0 {
				return tconst(0, ty)
			}
			if u.Info()&types.IsString != 0 {
				return &T{Op: "str", S: "", Ty: ty}
			}
		case *types.Pointer, *types.Slice, *types.Map, *types.Chan, *types.Signature, *types.Interface:
			return &T{Op: "nil", Ty: ty}
		}
	}
	return &T{Op: "zero", Ty: ty}
}

// mkbin builds canonical arithmetic / comparison terms.
func mkbin(op string, a, b *T, ty types.Type) *T {
	switch op {
	case "+":
		if ty != nil {
			if bt, ok := ty.Underlying().(*types.Basic); ok && bt.Info()&types.IsString != 0 {
				if a.Op == "str" && b.Op == "str" {
					return &T{Op: "str", S: a.S + b.S, Ty: ty}
				}
				return &T{Op: "cat", A: []*T{a, b}, Ty: ty} // string concatenation is not commutative
			}
		}
		return mkadd([]*T{a, b}, ty)
	case "*":
		args := []*T{a, b}
		sort.Slice(args, func(i, j int) bool { return args[i].Key() < args[j].Key() })
		if args[0].IsConst() && args[1].IsConst() {
			return tconst(args[0].C*args[1].C, ty)
		}
		return &T{Op: "mul", A: args, Ty: ty}
	case "-":
		if a.IsConst() && b.IsConst() && isSigned(ty) {
			return tconst(a.C-b.C, ty)
		}
		if b.IsConstVal(0) {
			return a
		}
		// (x + k) - c with k >= c is x + (k-c), also in modular arithmetic
		if b.IsConst() && a.Op == "add" {
			var rest []*T
			k, have := int64(0), false
			for _, x := range a.A {
				if x.IsConst() && !have {
					k, have = x.C, true
				} else {
					rest = append(rest, x)
				}
			}
			if have && k >= b.C && len(rest) > 0 {
				if k > b.C {
					rest = append(rest, tconst(k-b.C, ty))
				}
				return mkadd(rest, ty)
			}
		}
		return &T{Op: "sub", A: []*T{a, b}, Ty: ty}
	case "/":
		return &T{Op: "quo", A: []*T{a, b}, Ty: ty}
	case "%":
		if a.IsConstVal(0) {
			return tconst(0, ty) // 0 % x == 0 for every non-zero x (a zero modulus panics either way)
		}
		return &T{Op: "rem", A: []*T{a, b}, Ty: ty}
	case "==":
		return mkeq(a, b)
	case "!=":
		return mknot(mkeq(a, b))
	case "<":
		return mkcmp("lt", a, b)
	case "<=":
		return mkcmp("le", a, b)
	case ">":
		return mkcmp("lt", b, a)
	case ">=":
		return mkcmp("le", b, a)
	}
	return &T{Op: "bin:" + op, A: []*T{a, b}, Ty: ty}
}

func isSigned(ty types.Type) bool {
	if ty == nil {
		return false
	}
	if b, ok := ty.Underlying().(*types.Basic); ok {
		return b.Info()&types.IsInteger != 0 && b.Info()&types.IsUnsigned == 0
	}
	return false
}

func mkeq(a, b *T) *T {
	if a.IsConst() && b.IsConst() {
		if a.C == b.C {
			return tconst(1, nil)
		}
		return tconst(0, nil)
	}
	if a.Op == "str" && b.Op == "str" {
		if a.S == b.S {
			return tconst(1, nil)
		}
		return tconst(0, nil)
	}
	// nil against nil, and against values that are never nil
	if a.Op == "nil" && b.Op == "nil" {
		return tconst(1, nil)
	}
	for _, xy := range [][2]*T{{a, b}, {b, a}} {
		if xy[1].Op == "nil" {
			switch xy[0].Op {
			case "fn", "closure", "new", "alloc", "addr", "makeslice", "makemap", "makechan", "iface":
				return tconst(0, nil)
			case "call":
				if xy[0].S == "fmt.Errorf" || xy[0].S == "errors.New" {
					return tconst(0, nil) // a freshly made error is never nil
				}
			}
		}
	}
	// constant on the right
	if a.IsConst() || a.Op == "str" || a.Op == "nil" {
		a, b = b, a
	} else if !(b.IsConst() || b.Op == "str" || b.Op == "nil") && a.Key() > b.Key() {
		a, b = b, a
	}
	// x - c == k  and  x + c == k  name the test  x == k + c  /  x == k - c
	// (exact in wrapping arithmetic: adding a constant is a bijection)
	if b.IsConst() && isIntType(a.Ty) {
		if a.Op == "sub" && len(a.A) == 2 && a.A[1].IsConst() {
			return mkeq(a.A[0], tconst(b.C+a.A[1].C, b.Ty))
		}
		if a.Op == "add" && len(a.A) == 2 {
			for i := 0; i < 2; i++ {
				if a.A[i].IsConst() && b.C-a.A[i].C >= 0 {
					return mkeq(a.A[1-i], tconst(b.C-a.A[i].C, b.Ty))
				}
			}
		}
	}
	return &T{Op: "eq", A: []*T{a, b}}
}

func isIntType(t types.Type) bool {
	if t == nil {
		return false
	}
	b, ok := t.Underlying().(*types.Basic)
	return ok && b.Info()&types.IsInteger != 0
}

func mknot(a *T) *T {
	if a.IsConst() {
		return tconst(1-a.C, nil)
	}
	if a.Op == "not" {
		return a.A[0]
	}
	return &T{Op: "not", A: []*T{a}}
}

func mkadd(args []*T, ty types.Type) *T {
	var flat []*T
	var c int64
	for _, a := range args {
		if a.Op == "add" {
			for _, x := range a.A {
				if x.IsConst() {
					c += x.C
				} else {
					flat = append(flat, x)
				}
			}
		} else if a.IsConst() {
			c += a.C
		} else {
			flat = append(flat, a)
		}
	}
	sort.Slice(flat, func(i, j int) bool { return flat[i].Key() < flat[j].Key() })
	if c != 0 {
		flat = append(flat, tconst(c, ty))
	}
	if len(flat) == 0 {
		return tconst(0, ty)
	}
	if len(flat) == 1 {
		return flat[0]
	}
	return &T{Op: "add", A: flat, Ty: ty}
}

// walk visits t and all sub-terms.
func (t *T) walk(f func(*T) bool) {
	if t == nil {
		return
	}
	if !f(t) {
		return
	}
	for _, a := range t.A {
		a.walk(f)
	}
}

func (t *T) contains(pred func(*T) bool) bool {
	found := false
	t.walk(func(x *T) bool {
		if found {
			return false
		}
		if pred(x) {
			found = true
			return false
		}
		return true
	})
	return found
}

func stripConv(t *T) *T {
	for t != nil && t.Op == "conv" {
		t = t.A[0]
	}
	return t
}

// Linear form: sum coef*atom + const, over atoms keyed by epoch-free key.
type Lin struct {
	Coef  map[string]int64
	Atom  map[string]*T
	Const int64
}

func (l *Lin) String() string {
	var ks []string
	for k := range l.Coef {
		ks = append(ks, k)
	}
	sort.Strings(ks)
	var b strings.Builder
	for _, k := range ks {
		if l.Coef[k] == 0 {
			continue
		}
		fmt.Fprintf(&b, "%+d*%s ", l.Coef[k], k)
	}
	fmt.Fprintf(&b, "%+d", l.Const)
	return b.String()
}

func linearOf(t *T) *Lin {
	l := &Lin{Coef: map[string]int64{}, Atom: map[string]*T{}}
	var add func(t *T, sign int64)
	add = func(t *T, sign int64) {
		t = stripConv(t)
		switch t.Op {
		case "c":
			l.Const += sign * t.C
		case "add":
			for _, a := range t.A {
				add(a, sign)
			}
		case "sub":
			add(t.A[0], sign)
			add(t.A[1], -sign)
		case "neg":
			add(t.A[0], -sign)
		default:
			if t.Op == "mul" && len(t.A) == 2 {
				if t.A[0].IsConst() {
					add(t.A[1], sign*t.A[0].C)
					return
				}
				if t.A[1].IsConst() {
					add(t.A[0], sign*t.A[1].C)
					return
				}
			}
			k := t.Show()
			l.Coef[k] += sign
			l.Atom[k] = t
		}
	}
	add(t, 1)
	for k, c := range l.Coef {
		if c == 0 {
			delete(l.Coef, k)
			delete(l.Atom, k)
		}
	}
	return l
}

func (l *Lin) equal(o *Lin) bool {
	if l.Const != o.Const || len(l.Coef) != len(o.Coef) {
		return false
	}
	for k, c := range l.Coef {
		if o.Coef[k] != c {
			return false
		}
	}
	return true
}

func mkcmp(op string, a, b *T) *T {
	if a.IsConst() && b.IsConst() && (isSigned(a.Ty) || isSigned(b.Ty) || (a.C >= 0 && b.C >= 0)) {
		r := a.C < b.C
		if op == "le" {
			r = a.C <= b.C
		}
		if r {
			return tconst(1, nil)
		}
		return tconst(0, nil)
	}
	if op == "le" && !isFloatType(a.Ty) && !isFloatType(b.Ty) {
		// one spelling per test: a <= b is !(b < a) (not for floats: NaN)
		return mknot(&T{Op: "lt", A: []*T{b, a}})
	}
	return &T{Op: op, A: []*T{a, b}}
}

func isFloatType(t types.Type) bool {
	if t == nil {
		return false
	}
	b, ok := t.Underlying().(*types.Basic)
	return ok && b.Info()&types.IsFloat != 0
}
