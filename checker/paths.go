package main

// Path-sensitive abstract interpretation of one SSA function over the term
// domain.  The function's CFG is cut at loop back edges: a path is a fragment
// that starts at the entry block or at a loop header (whose phis become opaque
// loop variables and whose memory facts are havocked) and ends at a return, a
// panic, or a back edge.  Branches on enum-typed terms refine a finite value
// set for that term and prune infeasible edges (conditional constant
// propagation); other branch conditions are remembered as atoms so that a
// path never assumes both c and !c.  No input is supplied and no solver is
// used: the result is the list of feasible fragments with the symbolic
// operands of every store, call, send and return on them.

import (
	"fmt"
	"go/ast"
	"go/constant"
	"go/token"
	"go/types"
	"sort"
	"strings"

	"golang.org/x/tools/go/ssa"
)

type Event struct {
	Kind   string // store call ret send go backedge panic recv
	Instr  ssa.Instruction
	Pos    token.Pos
	LV     *T // store: lvalue
	Val    *T // store: value; send: value
	Callee *ssa.Function
	Method string // invoke: interface method name
	Args   []*T
	Res    *T
	Block  int
	Epoch  int
	Ver    int           // heap version (consumption epoch) when the event happened
	Cur    []bool        // call into the module: is argument k made only of memory reads that are still current at the call?
	Heap   map[string]*T // enterloop: the tracked memory facts when the loop was entered (forgotten inside it)
}

type Cond struct {
	Atom  *T
	Val   bool
	Pos   token.Pos
	Block int
}

type Path struct {
	Fn       *ssa.Function
	Start    int // starting block index (0 or loop header)
	Events   []Event
	Conds    []Cond
	Sets     map[string]uint64 // enum refinements at end of path (term key -> bitmask)
	SetTerms map[string]*T
	Blocks   []int
	End      string // ret panic backedge cut
	Ret      []*T
	Heap     map[string]*T // tracked memory facts at the end of the path
	HeapLV   map[string]*T // ... and the storage each of them is about
}

type allocState struct {
	whole  *T
	fields map[string]*T
}

type pstate struct {
	regs   map[ssa.Value]*T
	allocs map[*ssa.Alloc]*allocState
	heap   map[string]*T // lvalue key -> stored value
	heapLV map[string]*T
	sets   map[string]uint64
	setT   map[string]*T
	atoms  map[string]bool
	verAll int
	ver    map[string]int
	seq    int
	events []Event
	conds  []Cond
	blocks []int
	onPath map[*ssa.BasicBlock]bool
	curBlk int
	stack  []frame           // inlined calls in progress (innermost last)
	unroll map[int]int       // loop header -> iterations unrolled so far on this path (headers in concrete mode)
	strEq  map[string]string // term key -> the string literal it is known to equal on this path
}

// closureVal: a function literal created during the exploration, with the
// values of its free variables.
type closureVal struct {
	fn    *ssa.Function
	binds []*T
}

// frame: where to continue in the caller when an inlined callee returns.
type frame struct {
	fn   *ssa.Function // the callee being inlined
	blk  *ssa.BasicBlock
	idx  int // index in blk.Instrs of the instruction after the call
	call *ssa.Call
}

func (s *pstate) clone() *pstate {
	n := &pstate{
		regs:   make(map[ssa.Value]*T, len(s.regs)),
		allocs: make(map[*ssa.Alloc]*allocState, len(s.allocs)),
		heap:   make(map[string]*T, len(s.heap)),
		heapLV: make(map[string]*T, len(s.heapLV)),
		sets:   make(map[string]uint64, len(s.sets)),
		setT:   make(map[string]*T, len(s.setT)),
		atoms:  make(map[string]bool, len(s.atoms)),
		verAll: s.verAll,
		ver:    make(map[string]int, len(s.ver)),
		seq:    s.seq,
		curBlk: s.curBlk,
		onPath: make(map[*ssa.BasicBlock]bool, len(s.onPath)),
	}
	for k, v := range s.ver {
		n.ver[k] = v
	}
	for k, v := range s.regs {
		n.regs[k] = v
	}
	for k, v := range s.allocs {
		f := make(map[string]*T, len(v.fields))
		for a, b := range v.fields {
			f[a] = b
		}
		n.allocs[k] = &allocState{whole: v.whole, fields: f}
	}
	for k, v := range s.heap {
		n.heap[k] = v
	}
	for k, v := range s.heapLV {
		n.heapLV[k] = v
	}
	for k, v := range s.sets {
		n.sets[k] = v
	}
	for k, v := range s.setT {
		n.setT[k] = v
	}
	for k, v := range s.atoms {
		n.atoms[k] = v
	}
	for k, v := range s.onPath {
		n.onPath[k] = v
	}
	n.events = append([]Event(nil), s.events...)
	n.conds = append([]Cond(nil), s.conds...)
	n.blocks = append([]int(nil), s.blocks...)
	n.stack = append([]frame(nil), s.stack...)
	if len(s.strEq) > 0 {
		n.strEq = make(map[string]string, len(s.strEq))
		for k, v := range s.strEq {
			n.strEq[k] = v
		}
	}
	if len(s.unroll) > 0 {
		n.unroll = make(map[int]int, len(s.unroll))
		for k, v := range s.unroll {
			n.unroll[k] = v
		}
	}
	return n
}

type Explorer struct {
	W            *World
	Fn           *ssa.Function
	MaxPaths     int
	paths        []*Path
	headers      map[int]bool
	backEdge     map[[2]int]bool
	unkID        int64
	Err          error
	NoInline     bool
	steps        int
	closures     map[int64]closureVal // closures created on the way, by the id in their term
	arrays       map[int64][]arrEntry // element facts of arrays copied as whole values
	private      map[string]bool      // allocations no callee can reach (variables captured only by closures expanded in place)
	resolved     *ssa.Function        // callee of the dynamic call being recorded, when its function value is known
	resolvedRecv *T                   // ... and the receiver bound into it, for a method value
	invPhi       map[*ssa.Phi]*T      // loop-invariant header phis of the loop being entered
	probing      bool                 // evaluating a loop header to see whether its test is decided
	probeC       *T
	// Bind lets a client pre-bind parameters to terms.
	Bind map[*ssa.Parameter]*T
}

// loop headers = targets of edges u->v where v dominates u.
func (e *Explorer) findLoops() {
	e.headers = map[int]bool{}
	e.backEdge = map[[2]int]bool{}
	for _, b := range e.Fn.Blocks {
		for _, s := range b.Succs {
			if s.Dominates(b) {
				e.headers[s.Index] = true
				e.backEdge[[2]int{b.Index, s.Index}] = true
			}
		}
	}
}

func ExplorePaths(w *World, fn *ssa.Function) ([]*Path, error) {
	e := &Explorer{W: w, Fn: fn, MaxPaths: 200000}
	return e.Run()
}

func (e *Explorer) Run() ([]*Path, error) {
	if len(e.Fn.Blocks) == 0 {
		return nil, fmt.Errorf("no body")
	}
	e.findLoops()
	{
		st := 0
		s := &pstate{regs: map[ssa.Value]*T{}, allocs: map[*ssa.Alloc]*allocState{}, heap: map[string]*T{}, heapLV: map[string]*T{},
			sets: map[string]uint64{}, setT: map[string]*T{}, atoms: map[string]bool{}, onPath: map[*ssa.BasicBlock]bool{}, ver: map[string]int{}}
		e.runBlock(e.Fn.Blocks[st], -1, s, st)
		if e.Err != nil {
			return e.paths, e.Err
		}
	}
	return e.paths, nil
}

func (e *Explorer) finish(s *pstate, start int, end string, ret []*T) {
	if len(e.paths) >= e.MaxPaths {
		e.Err = fmt.Errorf("path limit exceeded in %s", e.Fn.Name())
		return
	}
	p := &Path{Fn: e.Fn, Start: start, Events: s.events, Conds: s.conds, Sets: s.sets, SetTerms: s.setT, Blocks: s.blocks, End: end, Ret: ret, Heap: s.heap, HeapLV: s.heapLV}
	e.paths = append(e.paths, p)
}

func (e *Explorer) unk(what string, ty types.Type) *T {
	e.unkID++
	return tunk(what, e.unkID, ty)
}

// val returns the term of an SSA value in state s.
func (e *Explorer) val(s *pstate, v ssa.Value) *T {
	if t, ok := s.regs[v]; ok {
		return t
	}
	switch v := v.(type) {
	case *ssa.Const:
		return constTerm(v)
	case *ssa.Parameter:
		if e.Bind != nil {
			if t, ok := e.Bind[v]; ok {
				return t
			}
		}
		return tparam(v.Name(), v.Type())
	case *ssa.FreeVar:
		return &T{Op: "fv", S: v.Name(), Ty: v.Type()}
	case *ssa.Global:
		return &T{Op: "gaddr", S: v.Name(), Ty: v.Type()}
	case *ssa.Function:
		// a method expression (*T).m is a thunk that calls m with the same arguments
		if v.Synthetic != "" && strings.HasSuffix(v.Name(), "$thunk") {
			if m := boundMethod(e.W, v); m != nil && len(m.Params) == len(v.Params) {
				return &T{Op: "fn", S: fnKey(m), Ty: v.Type()}
			}
		}
		return &T{Op: "fn", S: fnKey(v), Ty: v.Type()}
	case *ssa.Builtin:
		return &T{Op: "builtin", S: v.Name()}
	case *ssa.Alloc:
		return &T{Op: "alloc", S: e.allocName(v), C: int64(allocID(v)), Ty: v.Type()}
	case *ssa.FieldAddr, *ssa.IndexAddr:
		// an address used as a value (passed to a call, stored): name the storage
		return &T{Op: "addr", A: []*T{e.lvalue(s, v)}, Ty: v.Type()}
	}
	// value defined in a block not on this fragment (e.g. before a loop header)
	return &T{Op: "outer", S: v.Name(), Ty: v.Type()}
}

// allocName qualifies the storage of an inlined callee with the callee's name,
// so that it cannot be confused with the caller's storage of the same ordinal.
func (e *Explorer) allocName(a *ssa.Alloc) string {
	if a.Parent() != e.Fn || a.Parent().Synthetic != "" {
		return a.Parent().Name() + "." + a.Comment
	}
	return a.Comment
}

func allocID(a *ssa.Alloc) int {
	// stable id: index of the instruction in its function
	n := 0
	for _, b := range a.Parent().Blocks {
		for _, i := range b.Instrs {
			if i == a {
				return n + 1
			}
			n++
		}
	}
	return n + 1
}

func constTerm(c *ssa.Const) *T {
	if c.Value == nil {
		return zeroOf(c.Type())
	}
	switch c.Value.Kind() {
	case constant.Int:
		if i, ok := constant.Int64Val(c.Value); ok {
			return tconst(i, c.Type())
		}
		if u, ok := constant.Uint64Val(c.Value); ok {
			return tconst(int64(u), c.Type())
		}
	case constant.Bool:
		if constant.BoolVal(c.Value) {
			return tconst(1, c.Type())
		}
		return tconst(0, c.Type())
	case constant.String:
		return &T{Op: "str", S: constant.StringVal(c.Value), Ty: c.Type()}
	}
	return &T{Op: "k", S: c.Value.ExactString(), Ty: c.Type()}
}

// lvalue of an address-valued SSA value: the term naming the storage.
func (e *Explorer) lvalue(s *pstate, addr ssa.Value) *T {
	switch a := addr.(type) {
	case *ssa.Alloc:
		return e.val(s, a)
	case *ssa.FieldAddr:
		base := e.lvalue(s, a.X)
		st := derefStruct(a.X.Type())
		f := st.Field(a.Field)
		if embeddedStruct(f) {
			// the fields of an embedded struct are the outer struct's own (promoted) fields
			return base
		}
		return &T{Op: "sel", S: f.Name(), A: []*T{base}, Ty: f.Type()}
	case *ssa.IndexAddr:
		var base *T
		if _, ok := a.X.Type().Underlying().(*types.Pointer); ok {
			base = e.lvalue(s, a.X) // pointer to array
		} else {
			base = e.val(s, a.X)
		}
		if fb, ok := freshBase(base); ok {
			base = fb
		}
		idx := e.concrete(s, e.val(s, a.Index))
		// x[k:][i] is x[k+i]: the re-slice shares its storage
		if base.Op == "slice" && len(base.A) == 4 && base.A[1].IsConst() && base.A[1].C > 0 && stripConv(idx).IsConst() {
			if _, isSlice := base.A[0].Ty.Underlying().(*types.Slice); base.A[0].Ty != nil && isSlice {
				return &T{Op: "elem", A: []*T{base.A[0], tconst(base.A[1].C+stripConv(idx).C, idx.Ty)}, Ty: elemType(a.X.Type())}
			}
		}
		return &T{Op: "elem", A: []*T{base, idx}, Ty: elemType(a.X.Type())}
	case *ssa.Global:
		return &T{Op: "global", S: a.Name(), Ty: a.Type().(*types.Pointer).Elem()}
	}
	// pointer value held in a register / parameter / loaded from the heap
	p := e.val(s, addr)
	if p.Op == "addr" {
		return p.A[0] // a pointer to named storage (passed to an expanded helper): the storage itself
	}
	if p.Op == "new" || p.Op == "alloc" {
		return p // the pointer an allocation yields names that allocation
	}
	var ty types.Type
	if pt, ok := addr.Type().Underlying().(*types.Pointer); ok {
		ty = pt.Elem()
	}
	return &T{Op: "deref", A: []*T{p}, Ty: ty}
}

func derefStruct(t types.Type) *types.Struct {
	if p, ok := t.Underlying().(*types.Pointer); ok {
		t = p.Elem()
	}
	st, _ := t.Underlying().(*types.Struct)
	return st
}

func elemType(t types.Type) types.Type {
	switch u := t.Underlying().(type) {
	case *types.Slice:
		return u.Elem()
	case *types.Array:
		return u.Elem()
	case *types.Pointer:
		return elemType(u.Elem())
	case *types.Basic:
		return types.Typ[types.Byte]
	case *types.Map:
		return u.Elem()
	}
	return nil
}

// rootAlloc returns the alloc an lvalue term is rooted at and the field path.
func rootOf(lv *T) (root *T, fields []string) {
	for lv.Op == "sel" {
		fields = append([]string{lv.S}, fields...)
		lv = lv.A[0]
	}
	return lv, fields
}

func (e *Explorer) allocOf(s *pstate, addr ssa.Value) (*ssa.Alloc, []string) {
	var fields []string
	for {
		switch a := addr.(type) {
		case *ssa.Alloc:
			return a, fields
		case *ssa.FieldAddr:
			st := derefStruct(a.X.Type())
			if !embeddedStruct(st.Field(a.Field)) {
				fields = append([]string{st.Field(a.Field).Name()}, fields...)
			}
			addr = a.X
		default:
			return nil, nil
		}
	}
}

func untracked(lv *T) bool {
	// elements are not tracked (aliasing), except constant positions of an
	// array the function created itself (a composite literal)
	return lv.contains(func(x *T) bool {
		if x.Op != "elem" {
			return false
		}
		if _, fresh := freshBase(x.A[0]); fresh && x.A[1].IsConst() {
			return false
		}
		return true
	})
}

// load reads the storage named by addr.
// arrEntry: one tracked element (or element field) of an array copied as a whole.
type arrEntry struct {
	lv, val *T
}

func (e *Explorer) load(s *pstate, addr ssa.Value, ty types.Type) *T {
	// an array read as a whole value (a composite literal being assigned): remember what is
	// known about its elements so that the copy carries it along
	if ty != nil {
		if _, isArr := ty.Underlying().(*types.Array); isArr {
			lv := e.lvalue(s, addr)
			var snap []arrEntry
			for hk, hl := range s.heapLV {
				if hk != lv.Key() && lvInside(hl, lv) {
					snap = append(snap, arrEntry{hl, s.heap[hk]})
				}
			}
			// ... or a table the package initialiser filled
			if len(snap) == 0 && e.Fn.Synthetic == "" && e.W.initialised(lv) {
				for hk, hl := range e.W.globalInitLV {
					if hk != lv.Key() && lvInside(hl, lv) {
						snap = append(snap, arrEntry{hl, e.W.globalInit[hk]})
					}
				}
			}
			if len(snap) > 0 {
				e.unkID++
				if e.arrays == nil {
					e.arrays = map[int64][]arrEntry{}
				}
				e.arrays[e.unkID] = snap
				return &T{Op: "arrayval", C: e.unkID, A: []*T{lv}, Ty: ty}
			}
		}
	}
	if a, fields := e.allocOf(s, addr); a != nil && !a.Heap {
		return e.loadAlloc(s, a, fields, ty)
	}
	lv := e.lvalue(s, addr)
	return e.loadLV(s, lv, ty)
}

func (e *Explorer) loadLV(s *pstate, lv *T, ty types.Type) *T {
	if !untracked(lv) {
		if v, ok := s.heap[lv.Key()]; ok {
			return v
		}
		// a field of a tracked whole value
		if lv.Op == "sel" {
			if v, ok := s.heap[lv.A[0].Key()]; ok {
				return mksel(v, lv.S, ty)
			}
		}
		// a whole struct some of whose fields are tracked: compose
		if ty != nil {
			if stt, ok := ty.Underlying().(*types.Struct); ok {
				sub := false
				for _, hl := range s.heapLV {
					if hl.Op == "sel" && hl.A[0].Key() == lv.Key() {
						sub = true
					}
				}
				if sub {
					r := &T{Op: "struct", S: types.TypeString(ty, func(*types.Package) string { return "" }), Ty: ty}
					for i := 0; i < stt.NumFields(); i++ {
						f := stt.Field(i)
						r.N = append(r.N, f.Name())
						r.A = append(r.A, e.loadLV(s, &T{Op: "sel", S: f.Name(), A: []*T{lv}, Ty: f.Type()}, f.Type()))
					}
					return r
				}
			}
		}
	}
	// package-level data that only the package initialiser writes: its initial value
	if e.Fn.Synthetic == "" {
		if v, ok := e.W.initialValue(lv); ok {
			return v
		}
		if e.W.initialised(lv) {
			// part of a literal the initialiser built: a struct is the struct of its fields, and
			// whatever the initialiser did not store is the zero value
			if ty != nil {
				if stt, ok := ty.Underlying().(*types.Struct); ok {
					r := &T{Op: "struct", S: types.TypeString(ty, func(*types.Package) string { return "" }), Ty: ty}
					for i := 0; i < stt.NumFields(); i++ {
						f := stt.Field(i)
						r.N = append(r.N, f.Name())
						r.A = append(r.A, e.loadLV(s, &T{Op: "sel", S: f.Name(), A: []*T{lv}, Ty: f.Type()}, f.Type()))
					}
					return r
				}
				if constPath(lv) {
					return zeroOf(ty)
				}
			}
		}
	}
	// fresh heap read: tag with the epoch unless the field is stable
	n := *lv
	n.k = ""
	n.Ty = ty
	if !e.W.stableLV(lv) {
		n.E = s.lvEpoch(lv)
		if ty != nil && !untracked(lv) {
			if stt, ok := ty.Underlying().(*types.Struct); ok {
				n.FV = map[string]int{}
				for i := 0; i < stt.NumFields(); i++ {
					n.FV[stt.Field(i).Name()] = s.ver[stt.Field(i).Name()]
				}
			}
		}
	}
	return &n
}

func (e *Explorer) loadAlloc(s *pstate, a *ssa.Alloc, fields []string, ty types.Type) *T {
	st := s.allocs[a]
	elemTy := a.Type().(*types.Pointer).Elem()
	if st == nil {
		st = &allocState{fields: map[string]*T{}}
	}
	if len(fields) == 0 {
		if len(st.fields) == 0 {
			if st.whole != nil {
				return st.whole
			}
			return zeroOf(elemTy)
		}
		// compose
		if stt, ok := elemTy.Underlying().(*types.Struct); ok {
			r := &T{Op: "struct", S: types.TypeString(elemTy, func(*types.Package) string { return "" }), Ty: elemTy}
			for i := 0; i < stt.NumFields(); i++ {
				f := stt.Field(i)
				r.N = append(r.N, f.Name())
				r.A = append(r.A, e.loadAlloc(s, a, []string{f.Name()}, f.Type()))
			}
			return r
		}
		return e.unk("alloc", ty)
	}
	if len(fields) == 1 {
		if v, ok := st.fields[fields[0]]; ok {
			return v
		}
		if st.whole != nil {
			return mksel(st.whole, fields[0], ty)
		}
		return zeroOf(ty)
	}
	// nested: fall back on selecting through
	v := e.loadAlloc(s, a, fields[:1], nil)
	for _, f := range fields[1:] {
		v = mksel(v, f, ty)
	}
	return v
}

func (e *Explorer) store(s *pstate, in *ssa.Store, blk int) {
	v := e.val(s, in.Val)
	// an embedded struct assigned as a whole (s.battleState = newBattleState()): its fields, one by one
	if fa, ok := in.Addr.(*ssa.FieldAddr); ok {
		if f := derefStruct(fa.X.Type()).Field(fa.Field); embeddedStruct(f) {
			if a, _ := e.allocOf(s, fa.X); a == nil || a.Heap {
				base := e.lvalue(s, fa.X)
				est := f.Type().Underlying().(*types.Struct)
				for i := 0; i < est.NumFields(); i++ {
					ef := est.Field(i)
					lv := &T{Op: "sel", S: ef.Name(), A: []*T{base}, Ty: ef.Type()}
					fv := mksel(v, ef.Name(), ef.Type())
					s.events = append(s.events, Event{Kind: "store", Instr: in, Pos: in.Pos(), LV: lv, Val: fv, Block: blk, Epoch: s.seq})
					s.bump(lv)
					if !untracked(lv) {
						s.heap[lv.Key()], s.heapLV[lv.Key()] = fv, lv
					}
				}
				return
			}
		}
	}
	if a, fields := e.allocOf(s, in.Addr); a != nil && !a.Heap {
		st := s.allocs[a]
		if st == nil {
			st = &allocState{fields: map[string]*T{}}
			s.allocs[a] = st
		}
		switch len(fields) {
		case 0:
			st.whole = v
			st.fields = map[string]*T{}
		case 1:
			st.fields[fields[0]] = v
		default:
			st.fields[fields[0]] = e.unk("nested", nil)
		}
		return
	}
	lv := e.lvalue(s, in.Addr)
	s.events = append(s.events, Event{Kind: "store", Instr: in, Pos: in.Pos(), LV: lv, Val: v, Block: blk, Epoch: s.seq})
	s.bump(lv)
	if untracked(lv) {
		lv.walk(func(x *T) bool {
			if x.Op == "elem" {
				if fb, fresh := freshBase(x.A[0]); fresh {
					for hk, hl := range s.heapLV {
						if hl.contains(func(y *T) bool { return y.Op == "elem" && y.A[0].Key() == fb.Key() }) {
							delete(s.heap, hk)
							delete(s.heapLV, hk)
						}
					}
				}
			}
			return true
		})
	}
	if !untracked(lv) {
		// invalidate sub-lvalues and enclosing whole values
		k := lv.Key()
		for hk, hl := range s.heapLV {
			if hk == k {
				continue
			}
			if lvPrefix(hl, lv) || lvPrefix(lv, hl) {
				delete(s.heap, hk)
				delete(s.heapLV, hk)
			}
		}
		s.heap[k] = v
		s.heapLV[k] = lv
		if v.Op == "arrayval" {
			// the copy has the elements of the original
			src := v.A[0].Key()
			for _, en := range e.arrays[v.C] {
				nl := rewrite(en.lv, func(x *T) *T {
					if x.Key() == src {
						return lv
					}
					return nil
				})
				s.heap[nl.Key()], s.heapLV[nl.Key()] = en.val, nl
			}
		}
	}
}

// lvInside: a is an element / field (at any depth) of b.
func lvInside(a, b *T) bool {
	bk := b.Key()
	for a.Op == "sel" || a.Op == "elem" {
		a = a.A[0]
		if a.Key() == bk {
			return true
		}
	}
	return false
}

// lvEpoch: version of the storage named by lv on this path.
func (s *pstate) lvEpoch(lv *T) int {
	e := 1 + s.verAll*1000
	for x := lv; x != nil; {
		switch x.Op {
		case "sel":
			e += s.ver[x.S]
			x = x.A[0]
		case "elem":
			e += s.ver["[]"]
			x = x.A[0]
		case "deref":
			x = x.A[0]
		case "global":
			e += s.ver["global:"+x.S]
			x = nil
		default:
			x = nil
		}
	}
	return e
}

func (s *pstate) bump(lv *T) {
	switch lv.Op {
	case "sel":
		s.ver[lv.S]++
	case "elem":
		s.ver["[]"]++
	case "global":
		s.ver["global:"+lv.S]++
	default:
		s.verAll++
	}
}

// lvPrefix reports whether a is b or a sub-lvalue of b.
func lvPrefix(a, b *T) bool {
	bk := b.Key()
	for {
		if a.Key() == bk {
			return true
		}
		if a.Op == "sel" {
			a = a.A[0]
			continue
		}
		return false
	}
}

// havoc forgets tracked heap facts that a call may have changed.
func (e *Explorer) havoc(s *pstate, callee *ssa.Function) {
	mods, unknown := e.W.modSet(callee)
	if unknown {
		s.verAll++
	} else {
		for f := range mods {
			s.ver[f]++
		}
	}
	// code outside the analysed packages cannot name their package-level variables (nor the
	// literals the package initialiser hangs on them): those facts survive such a call
	external := callee != nil && !e.W.inPkgs(callee)
	for k, lv := range s.heapLV {
		if unknown || lvTouches(lv, mods) {
			if len(e.private) > 0 {
				root := lv
				for root.Op == "sel" || root.Op == "elem" {
					root = root.A[0]
				}
				if root.Op == "new" && e.private[root.Key()] && root == lv {
					continue // the variable itself (not what it points to) is out of every callee's reach
				}
			}
			if external {
				root := lv
				for root.Op == "sel" || root.Op == "elem" {
					root = root.A[0]
				}
				if root.Op == "global" || (root.Op == "new" && strings.HasPrefix(root.S, "init.")) {
					continue
				}
			}
			delete(s.heap, k)
			delete(s.heapLV, k)
		}
	}
}

func lvTouches(lv *T, mods map[string]bool) bool {
	hit := false
	lv.walk(func(x *T) bool {
		if x.Op == "sel" && mods[x.S] {
			hit = true
		}
		if x.Op == "global" && mods["global:"+x.S] {
			hit = true
		}
		return !hit
	})
	return hit
}

// rootBlk: the block of the function being explored to which an instruction
// of block b is attributed (the call site's block while a callee is inlined).
func (s *pstate) rootBlk(b *ssa.BasicBlock) int {
	if len(s.stack) > 0 {
		return s.stack[0].blk.Index
	}
	return b.Index
}

func (e *Explorer) runBlock(b *ssa.BasicBlock, pred int, s *pstate, start int) {
	e.runFrom(b, pred, 0, s, start)
}

// shouldInline: the callee is a loop-free, non-recursive helper of the
// analysed packages that no rule treats as an anchor: its body is explored in
// the caller's state instead of being summarised as an opaque call.
func (e *Explorer) shouldInline(s *pstate, callee *ssa.Function) bool {
	if e.NoInline || e.probing || callee == e.Fn || !e.W.inlinable(callee) {
		return false
	}
	for _, f := range s.stack {
		if f.fn == callee {
			return false
		}
	}
	if len(s.stack) >= 16 {
		e.Err = fmt.Errorf("inlining depth exceeded in %s at %s", e.Fn.Name(), callee.Name())
		return false
	}
	return true
}

// maxSteps bounds the work of one exploration (block visits over all paths):
// an exploration that exceeds it is abandoned with an error, which the rules
// report as undecided, instead of exhausting time and memory.
const maxSteps = 1500000

func (e *Explorer) runFrom(b *ssa.BasicBlock, pred int, from int, s *pstate, start int) {
	if e.Err != nil {
		return
	}
	e.steps++
	if e.steps > maxSteps {
		e.Err = fmt.Errorf("exploration budget exceeded in %s (more than %d block visits): too many paths to enumerate", e.Fn.Name(), maxSteps)
		return
	}
	rb := s.rootBlk(b)
	if from == 0 {
		if len(s.stack) == 0 {
			s.blocks = append(s.blocks, b.Index)
		}
		s.onPath[b] = true
	}
	isHeaderStart := pred == -2
	for ii := from; ii < len(b.Instrs); ii++ {
		switch in := b.Instrs[ii].(type) {
		case *ssa.Phi:
			if isHeaderStart {
				if t, ok := e.invPhi[in]; ok {
					s.regs[in] = t // never changed by the loop: its value on entry
					continue
				}
				s.regs[in] = &T{Op: "loopvar", S: in.Comment, C: int64(b.Index), Ty: in.Type()}
				continue
			}
			idx := -1
			for i, p := range b.Preds {
				if p.Index == pred {
					idx = i
				}
			}
			if idx < 0 {
				s.regs[in] = e.unk("phi", in.Type())
			} else {
				s.regs[in] = e.val(s, in.Edges[idx])
			}
		case *ssa.UnOp:
			switch in.Op {
			case token.MUL:
				s.regs[in] = e.load(s, in.X, in.Type())
				if a, _ := e.allocOf(s, in.X); a == nil || a.Heap {
					if r := s.regs[in]; r.E != 0 && untracked(r) && (r.Op == "sel" || r.Op == "elem") {
						s.seq++
						s.events = append(s.events, Event{Kind: "load", Instr: in, Pos: in.Pos(), LV: r, Block: rb, Epoch: s.seq})
					}
				}
			case token.NOT:
				s.regs[in] = mknot(e.val(s, in.X))
			case token.SUB:
				x := e.val(s, in.X)
				if x.IsConst() {
					s.regs[in] = tconst(-x.C, in.Type())
				} else {
					s.regs[in] = &T{Op: "neg", A: []*T{x}, Ty: in.Type()}
				}
			case token.ARROW:
				ch := e.val(s, in.X)
				s.seq++
				r := &T{Op: "recv", A: []*T{ch}, E: s.seq, Ty: in.Type()}
				s.regs[in] = r
				s.events = append(s.events, Event{Kind: "recv", Instr: in, Pos: in.Pos(), Args: []*T{ch}, Res: r, Block: rb})
			default:
				s.regs[in] = &T{Op: "un:" + in.Op.String(), A: []*T{e.val(s, in.X)}, Ty: in.Type()}
			}
		case *ssa.BinOp:
			s.regs[in] = mkbin(in.Op.String(), e.val(s, in.X), e.val(s, in.Y), in.Type())
		case *ssa.Store:
			e.store(s, in, rb)
		case *ssa.Alloc:
			if in.Heap {
				nm := e.allocName(in)
				if it := s.iteration(); it != "" {
					nm += it // storage created in an unrolled iteration is distinct per iteration
				}
				s.regs[in] = &T{Op: "new", S: nm, C: int64(allocID(in)), Ty: in.Type()}
				if e.W.privateCell(in) {
					if e.private == nil {
						e.private = map[string]bool{}
					}
					e.private[s.regs[in].Key()] = true
				}
				if isTextBuilder(in.Type()) {
					lv := builderText(s.regs[in])
					s.heap[lv.Key()], s.heapLV[lv.Key()] = tstr(""), lv // a new builder is empty
				}
			} else {
				delete(s.allocs, in)
			}
		case *ssa.IndexAddr:
			// addresses are resolved at their use; the bounds obligation is recorded here
			var base *T
			if _, ok := in.X.Type().Underlying().(*types.Pointer); ok {
				base = e.lvalue(s, in.X)
			} else {
				base = e.val(s, in.X)
			}
			// a read-only table indexed by a value of an enumerated type: one path per value
			if e.forkOnTableIndex(b, pred, ii, s, start, base, in.Index) {
				return
			}
			s.events = append(s.events, Event{Kind: "index", Instr: in, Pos: in.Pos(), Args: []*T{base, e.val(s, in.Index)}, Block: rb})
		case *ssa.FieldAddr:
			// addresses are resolved at their use
		case *ssa.Field:
			st := in.X.Type().Underlying().(*types.Struct)
			s.regs[in] = mksel(e.val(s, in.X), st.Field(in.Field).Name(), in.Type())
			if embeddedStruct(st.Field(in.Field)) && e.val(s, in.X).Op != "struct" {
				s.regs[in] = e.val(s, in.X) // promoted fields: select them from the outer value
			}
		case *ssa.Index:
			// an element of an array value whose elements were known when it was copied
			if av := e.val(s, in.X); av.Op == "arrayval" {
				if idx := stripConv(e.concrete(s, e.val(s, in.Index))); idx.IsConst() {
					var hit *T
					for _, en := range e.arrays[av.C] {
						if en.lv.Op == "elem" && en.lv.A[0].Key() == av.A[0].Key() && stripConv(en.lv.A[1]).IsConstVal(idx.C) {
							hit = en.val
						}
					}
					if hit != nil {
						s.regs[in] = hit
						continue
					}
				}
			}
			// a constant string indexed by a value of an enumerated type is a table
			if str := e.val(s, in.X); str.Op == "str" {
				idx := stripConv(e.concrete(s, e.val(s, in.Index)))
				if !idx.IsConst() && e.forkOnEnum(b, pred, ii, s, start, in.Index) {
					return
				}
				if idx.IsConst() && idx.C >= 0 && idx.C < int64(len(str.S)) {
					s.regs[in] = tconst(int64(str.S[idx.C]), in.Type())
					continue
				}
			}
			s.regs[in] = &T{Op: "elem", A: []*T{e.val(s, in.X), e.val(s, in.Index)}, Ty: in.Type()}
			s.events = append(s.events, Event{Kind: "index", Instr: in, Pos: in.Pos(), Args: []*T{e.val(s, in.X), e.val(s, in.Index)}, Block: rb})
		case *ssa.Lookup:
			if _, isMap := in.X.Type().Underlying().(*types.Map); isMap {
				// a map only the package initialiser fills, with constant keys: a table
				if ents, ok := e.W.roInitMap(e.val(s, in.X)); ok && e.Fn.Synthetic == "" {
					key := stripConv(e.concrete(s, e.val(s, in.Index)))
					if !key.IsConst() && key.Op != "str" && e.forkOnEnum(b, pred, ii, s, start, in.Index) {
						return
					}
					if key.IsConst() || key.Op == "str" {
						var hit *T
						for _, en := range ents {
							if stripConv(en.key).Key() == key.Key() {
								hit = en.val // a later store replaces an earlier one
							}
						}
						elemTy := in.X.Type().Underlying().(*types.Map).Elem()
						found := int64(1)
						if hit == nil {
							hit, found = zeroOf(elemTy), 0
						}
						if in.CommaOk {
							s.regs[in] = &T{Op: "tuple", A: []*T{hit, tconst(found, types.Typ[types.Bool])}, Ty: in.Type()}
						} else {
							s.regs[in] = hit
						}
						continue
					}
				}
				s.regs[in] = &T{Op: "lookup", A: []*T{e.val(s, in.X), e.val(s, in.Index)}, E: 1 + s.verAll*1000 + s.ver["[]"], Ty: in.Type()}
			} else {
				// string indexing; a constant string indexed by a value of an enumerated type is a table
				if str := e.val(s, in.X); str.Op == "str" {
					idx := stripConv(e.concrete(s, e.val(s, in.Index)))
					if !idx.IsConst() && e.forkOnEnum(b, pred, ii, s, start, in.Index) {
						return
					}
					if idx.IsConst() && idx.C >= 0 && idx.C < int64(len(str.S)) {
						s.regs[in] = tconst(int64(str.S[idx.C]), in.Type())
						continue
					}
				}
				s.regs[in] = &T{Op: "elem", A: []*T{e.val(s, in.X), e.val(s, in.Index)}, Ty: in.Type()}
				s.events = append(s.events, Event{Kind: "index", Instr: in, Pos: in.Pos(), Args: []*T{e.val(s, in.X), e.val(s, in.Index)}, Block: rb})
			}
		case *ssa.Convert:
			s.regs[in] = &T{Op: "conv", S: typeName(in.Type()), A: []*T{e.val(s, in.X)}, Ty: in.Type()}
			// string(r) of a constant rune or byte is a constant string
			if bt, ok := in.Type().Underlying().(*types.Basic); ok && bt.Kind() == types.String {
				if st, ok := in.X.Type().Underlying().(*types.Basic); ok && st.Info()&types.IsInteger != 0 {
					if x := stripConv(e.val(s, in.X)); x.IsConst() {
						s.regs[in] = tstr(string(rune(x.C)))
					}
				}
			}
		case *ssa.ChangeType:
			s.regs[in] = e.val(s, in.X)
		case *ssa.ChangeInterface:
			s.regs[in] = e.val(s, in.X)
		case *ssa.MakeInterface:
			s.regs[in] = &T{Op: "iface", A: []*T{e.val(s, in.X)}, Ty: in.Type()}
		case *ssa.MakeSlice:
			e.unkID++
			s.regs[in] = &T{Op: "makeslice", C: e.unkID, A: []*T{e.val(s, in.Len), e.val(s, in.Cap)}, Ty: in.Type()}
		case *ssa.MakeMap:
			e.unkID++
			s.regs[in] = &T{Op: "makemap", C: e.unkID, Ty: in.Type()}
		case *ssa.MakeChan:
			e.unkID++
			s.regs[in] = &T{Op: "makechan", C: e.unkID, A: []*T{e.val(s, in.Size)}, Ty: in.Type()}
		case *ssa.MakeClosure:
			// a method value (l.lexInput): the method itself names the state; the receiver is the machine
			if f, ok := in.Fn.(*ssa.Function); ok && strings.HasSuffix(f.Name(), "$bound") && f.Synthetic != "" && len(in.Bindings) == 1 {
				if m := boundMethod(e.W, f); m != nil {
					s.regs[in] = &T{Op: "fn", S: fnKey(m), A: []*T{e.val(s, in.Bindings[0])}, Ty: in.Type()}
					continue
				}
			}
			e.unkID++
			ct := &T{Op: "closure", S: in.Fn.String(), C: e.unkID, Ty: in.Type()}
			var binds []*T
			for _, b := range in.Bindings {
				binds = append(binds, e.val(s, b))
			}
			if e.closures == nil {
				e.closures = map[int64]closureVal{}
			}
			if f, ok := in.Fn.(*ssa.Function); ok {
				e.closures[ct.C] = closureVal{fn: f, binds: binds}
			}
			s.regs[in] = ct
		case *ssa.Slice:
			args := []*T{e.val(s, in.X)}
			for _, x := range []ssa.Value{in.Low, in.High, in.Max} {
				if x != nil {
					args = append(args, e.val(s, x))
				} else {
					args = append(args, &T{Op: "none"})
				}
			}
			s.regs[in] = &T{Op: "slice", A: args, Ty: in.Type()}
			s.events = append(s.events, Event{Kind: "slice", Instr: in, Pos: in.Pos(), Args: args, Block: rb})
		case *ssa.Extract:
			if tup := e.val(s, in.Tuple); tup.Op == "tuple" && in.Index < len(tup.A) {
				s.regs[in] = tup.A[in.Index]
			} else {
				s.regs[in] = &T{Op: "ext", C: int64(in.Index) + 1, A: []*T{tup}, Ty: in.Type()}
			}
		case *ssa.TypeAssert:
			s.regs[in] = &T{Op: "assert", A: []*T{e.val(s, in.X)}, Ty: in.Type()}
		case *ssa.Range:
			s.regs[in] = &T{Op: "range", A: []*T{e.val(s, in.X)}, Ty: in.Type()}
		case *ssa.Next:
			s.seq++
			s.regs[in] = &T{Op: "next", A: []*T{e.val(s, in.Iter)}, E: s.seq, Ty: in.Type()}
		case *ssa.Call:
			callee := in.Call.StaticCallee()
			var cv *closureVal
			var boundRecv *T
			if callee != nil && callee.Parent() != nil && !in.Call.IsInvoke() {
				// a function literal called where it was made: expand it with its captured variables
				if fv := e.val(s, in.Call.Value); fv.Op == "closure" {
					if c, ok := e.closures[fv.C]; ok && e.W.closureInlinable(c.fn) {
						cv = &c
					}
				}
			}
			if callee == nil && !in.Call.IsInvoke() {
				// a call through a function value that is known on this path:
				// a named function (lookup := f; lookup(x)) or a function literal
				switch fv := e.val(s, in.Call.Value); fv.Op {
				case "fn":
					callee = e.W.funcByKey(fv.S)
					if len(fv.A) == 1 {
						boundRecv = fv.A[0] // a method value: its receiver was fixed when the value was made
					}
				case "closure":
					if c, ok := e.closures[fv.C]; ok && e.W.closureInlinable(c.fn) {
						callee, cv = c.fn, &c
					}
				}
			}
			if callee != nil && (cv != nil || e.shouldInline(s, callee)) && !e.onStack(s, callee) {
				var args []*T
				if boundRecv != nil {
					args = append(args, boundRecv)
				}
				for _, a := range in.Call.Args {
					args = append(args, e.val(s, a))
				}
				for i, p := range callee.Params {
					if i < len(args) {
						s.regs[p] = args[i]
					}
				}
				if cv != nil {
					for i, fv := range callee.FreeVars {
						if i < len(cv.binds) {
							s.regs[fv] = cv.binds[i]
						}
					}
				}
				s.seq++
				s.events = append(s.events, Event{Kind: "inline", Instr: in, Pos: in.Pos(), Callee: callee, Args: args, Block: rb, Epoch: s.seq, Ver: s.verAll})
				s.stack = append(s.stack, frame{fn: callee, blk: b, idx: ii + 1, call: in})
				e.runFrom(callee.Blocks[0], -1, 0, s, start)
				return
			}
			if e.Err != nil {
				return
			}
			if callee != nil && in.Call.StaticCallee() == nil && cv == nil {
				e.resolved = callee // the function value resolved on this path
				e.resolvedRecv = boundRecv
			}
			if done, took := e.modelIndexByte(b, pred, ii, s, start, in); took {
				return
			} else if done {
				continue
			}
			e.call(s, in, &in.Call, in, rb)
			e.resolved, e.resolvedRecv = nil, nil
			if cal := in.Call.StaticCallee(); cal != nil && cal.Pkg != nil && cal.Pkg.Pkg.Path() == "os" && cal.Name() == "Exit" {
				e.finish(s, start, "exit", nil)
				return
			}
		case *ssa.Go:
			e.callEvent(s, "go", in, &in.Call, nil, rb)
		case *ssa.Defer:
			e.callEvent(s, "defer", in, &in.Call, nil, rb)
		case *ssa.Send:
			ch := e.val(s, in.Chan)
			s.events = append(s.events, Event{Kind: "send", Instr: in, Pos: in.Pos(), Args: []*T{ch}, Val: e.val(s, in.X), Block: rb, Epoch: s.seq, Ver: s.verAll})
		case *ssa.MapUpdate:
			s.events = append(s.events, Event{Kind: "mapupdate", Instr: in, Pos: in.Pos(), LV: e.val(s, in.Map), Args: []*T{e.val(s, in.Key)}, Val: e.val(s, in.Value), Block: rb})
			s.ver["[]"]++
		case *ssa.DebugRef, *ssa.RunDefers:
		case *ssa.Return:
			var rets []*T
			for _, r := range in.Results {
				rets = append(rets, e.val(s, r))
			}
			if n := len(s.stack); n > 0 {
				// return of an inlined callee: continue in the caller
				fr := s.stack[n-1]
				s.stack = s.stack[:n-1]
				for _, cb := range fr.fn.Blocks {
					delete(s.onPath, cb)
				}
				var r *T
				switch len(rets) {
				case 0:
					r = &T{Op: "none"}
				case 1:
					r = rets[0]
				default:
					r = &T{Op: "tuple", A: rets, Ty: fr.call.Type()}
				}
				s.regs[fr.call] = r
				s.events = append(s.events, Event{Kind: "inlret", Instr: fr.call, Pos: fr.call.Pos(), Callee: fr.fn, Args: rets, Res: r, Block: s.rootBlk(fr.blk)})
				e.runFrom(fr.blk, -3, fr.idx, s, start)
				return
			}
			if e.probing {
				return
			}
			s.events = append(s.events, Event{Kind: "ret", Instr: in, Pos: in.Pos(), Args: rets, Block: rb})
			e.finish(s, start, "ret", rets)
			return
		case *ssa.Panic:
			if e.probing {
				return
			}
			s.events = append(s.events, Event{Kind: "panic", Instr: in, Pos: in.Pos(), Block: rb})
			e.finish(s, start, "panic", nil)
			return
		case *ssa.Jump:
			if e.probing {
				return
			}
			e.edge(b, b.Succs[0], s, start)
			return
		case *ssa.If:
			if e.probing {
				e.probeC = e.val(s, in.Cond)
				return
			}
			e.branch(b, in, s, start)
			return
		default:
			if v, ok := in.(ssa.Value); ok {
				s.regs[v] = e.unk(fmt.Sprintf("%T", in), v.Type())
			}
		}
	}
	if !e.probing {
		e.finish(s, start, "fallout", nil)
	}
}

// decided: with the values flowing in from `from`, is the test at the end of
// loop header `to` a constant?  (A loop over a composite literal, a counted
// loop with constant bounds.)  Evaluated on a copy of the state.
func (e *Explorer) decided(from, to *ssa.BasicBlock, s *pstate, start int) bool {
	if e.probing {
		return false
	}
	sh, ok := countedLoop(to)
	if !ok {
		return false
	}
	t := s.clone()
	delete(t.onPath, to)
	e.probing, e.probeC = true, nil
	np := len(e.paths)
	e.runFrom(to, from.Index, 0, t, start)
	e.probing = false
	e.paths = e.paths[:np]
	if e.probeC == nil || !e.probeC.IsConst() {
		return false
	}
	// the whole loop must be short: a long counted loop (a pass limit of 1000)
	// is explored abstractly from the start, not unrolled and then abandoned
	x, y := t.regs[sh.cmp.X], t.regs[sh.cmp.Y]
	if x == nil {
		x = e.val(t, sh.cmp.X)
	}
	if y == nil {
		y = e.val(t, sh.cmp.Y)
	}
	if !x.IsConst() || !y.IsConst() {
		return false
	}
	v, bound := x.C, y.C
	if !sh.indX {
		v, bound = y.C, x.C
	}
	return sh.tripsWithin(v, bound, maxUnroll-s.unroll[to.Index])
}

const maxUnroll = 40

// iterate: take one more concrete iteration of the loop at header `to`.
func (e *Explorer) iterate(from, to *ssa.BasicBlock, s *pstate, start int) {
	if s.unroll == nil {
		s.unroll = map[int]int{}
	}
	s.unroll[to.Index]++
	for _, b := range e.Fn.Blocks {
		if to.Dominates(b) {
			delete(s.onPath, b)
		}
	}
	s.events = append(s.events, Event{Kind: "unroll", Block: s.rootBlk(from), Res: tconst(int64(to.Index), nil), Epoch: s.unroll[to.Index]})
	e.runBlock(to, from.Index, s, start)
}

func (e *Explorer) edge(from, to *ssa.BasicBlock, s *pstate, start int) {
	inl := len(s.stack) > 0
	if !inl && e.headers[to.Index] {
		n, concrete := s.unroll[to.Index]
		entering := !e.backEdge[[2]int{from.Index, to.Index}] && !s.onPath[to]
		if (entering || concrete) && n < maxUnroll && e.decided(from, to, s, start) {
			e.iterate(from, to, s, start)
			return
		}
		if concrete {
			// the test is no longer decided (or the bound is reached): the rest of
			// the loop is explored abstractly from the current state
			delete(s.unroll, to.Index)
			for _, b := range e.Fn.Blocks {
				if to.Dominates(b) {
					delete(s.onPath, b)
				}
			}
		}
	}
	if (!inl && e.backEdge[[2]int{from.Index, to.Index}]) || s.onPath[to] {
		// record the values flowing into the header's phis
		var args []*T
		for _, in := range to.Instrs {
			phi, ok := in.(*ssa.Phi)
			if !ok {
				break
			}
			for i, p := range to.Preds {
				if p == from {
					args = append(args, e.val(s, phi.Edges[i]))
				}
			}
		}
		s.events = append(s.events, Event{Kind: "backedge", Args: args, Block: s.rootBlk(from), Res: tconst(int64(to.Index), nil)})
		e.finish(s, start, "backedge", nil)
		return
	}
	if !inl && e.headers[to.Index] {
		// entering a loop from outside: the header's phis become opaque loop
		// variables and every memory fact the loop may change is forgotten.
		var args []*T
		for _, in := range to.Instrs {
			phi, ok := in.(*ssa.Phi)
			if !ok {
				break
			}
			for i, p := range to.Preds {
				if p == from {
					args = append(args, e.val(s, phi.Edges[i]))
				}
			}
		}
		s.events = append(s.events, Event{Kind: "enterloop", Args: args, Block: from.Index, Res: tconst(int64(to.Index), nil), Heap: s.heap})
		// header phis that every back edge feeds with the phi itself keep their entry value
		e.invPhi = map[*ssa.Phi]*T{}
		k := 0
		for _, in := range to.Instrs {
			phi, ok := in.(*ssa.Phi)
			if !ok {
				break
			}
			inv := true
			for i, p := range to.Preds {
				if p != from && phi.Edges[i] != ssa.Value(phi) {
					inv = false
				}
			}
			if inv && k < len(args) {
				e.invPhi[phi] = args[k]
			}
			k++
		}
		s.verAll++
		s.heap = map[string]*T{}
		s.heapLV = map[string]*T{}
		body := e.loopBody(to)
		for _, b := range e.Fn.Blocks {
			if !body[b] {
				continue // a block that leaves the loop for good cannot change what an iteration sees
			}
			for _, in := range b.Instrs {
				if st, ok := in.(*ssa.Store); ok {
					if a, _ := e.allocOf(s, st.Addr); a != nil && !a.Heap {
						s.allocs[a] = &allocState{whole: e.unk("loop-modified "+a.Comment, nil), fields: map[string]*T{}}
					}
				}
			}
		}
		e.runBlock(to, -2, s, start)
		return
	}
	e.runBlock(to, from.Index, s, start)
}

func (e *Explorer) branch(b *ssa.BasicBlock, in *ssa.If, s *pstate, start int) {
	c := e.val(s, in.Cond)
	for _, pol := range []bool{true, false} {
		var succ *ssa.BasicBlock
		if pol {
			succ = b.Succs[0]
		} else {
			succ = b.Succs[1]
		}
		ns := s
		// clone lazily only when both feasible: simple approach clones always
		ns = s.clone()
		ns.curBlk = s.rootBlk(b)
		if !e.assume(ns, c, pol, instrPos(in)) {
			continue
		}
		e.edge(b, succ, ns, start)
		if e.Err != nil {
			return
		}
	}
}

// assume adds "c == pol" to the state; false when infeasible.
func (e *Explorer) assume(s *pstate, c *T, pol bool, pos token.Pos) bool {
	if c.Op == "not" {
		return e.assume(s, c.A[0], !pol, pos)
	}
	if c.IsConst() {
		return (c.C != 0) == pol
	}
	if c.Op == "eq" && c.A[1].IsConst() {
		x := c.A[0]
		if dom, ok := e.W.enumDomain(x.Ty); ok {
			k := x.Key()
			cur, have := s.sets[k]
			if !have {
				cur = dom
			}
			bit := uint64(0)
			if c.A[1].C >= 0 && c.A[1].C < 64 {
				bit = uint64(1) << uint(c.A[1].C)
			}
			var nw uint64
			if pol {
				nw = cur & bit
			} else {
				nw = cur &^ bit
			}
			if nw == 0 {
				return false
			}
			s.sets[k] = nw
			s.setT[k] = x
			s.conds = append(s.conds, Cond{Atom: c, Val: pol, Pos: pos, Block: s.curBlk})
			return true
		}
	}
	// membership in a constant bit set:  set & (1 << x) == 0  with x of an enumerated type
	if c.Op == "eq" && c.A[1].IsConstVal(0) && c.A[0].Op == "bin:&" && len(c.A[0].A) == 2 {
		m, sh := c.A[0].A[0], c.A[0].A[1]
		if !m.IsConst() {
			m, sh = sh, m
		}
		if m.IsConst() && sh.Op == "bin:<<" && len(sh.A) == 2 && sh.A[0].IsConstVal(1) {
			x := stripConv(sh.A[1])
			if dom, ok := e.W.enumDomain(x.Ty); ok && !x.IsConst() {
				key := x.Key()
				cur, have := s.sets[key]
				if !have {
					cur = dom
				}
				mask := uint64(m.C)
				nw := cur &^ mask // "== 0" holds: not a member
				if !pol {
					nw = cur & mask
				}
				if nw == 0 {
					return false
				}
				s.sets[key], s.setT[key] = nw, x
				s.conds = append(s.conds, Cond{Atom: c, Val: pol, Pos: pos, Block: s.curBlk})
				return true
			}
		}
	}
	// an ordering test between a value of an enumerated type and a constant narrows its set
	if c.Op == "lt" && len(c.A) == 2 {
		x, k, xLeft := stripConv(c.A[0]), c.A[1], true
		if c.A[0].IsConst() {
			x, k, xLeft = stripConv(c.A[1]), c.A[0], false
		}
		if dom, ok := e.W.enumDomain(x.Ty); ok && k.IsConst() && !x.IsConst() {
			key := x.Key()
			cur, have := s.sets[key]
			if !have {
				cur = dom
			}
			var mask uint64
			for v := int64(0); v < 64; v++ {
				holds := v < k.C // x < k
				if !xLeft {
					holds = k.C < v // k < x
				}
				if holds == pol {
					mask |= 1 << uint(v)
				}
			}
			if cur&mask == 0 {
				return false
			}
			s.sets[key], s.setT[key] = cur&mask, x
			s.conds = append(s.conds, Cond{Atom: c, Val: pol, Pos: pos, Block: s.curBlk})
			return true
		}
	}
	// a value equal to one string literal differs from every other literal
	if c.Op == "eq" && c.A[1].Op == "str" && c.A[0].Op != "str" {
		xk := c.A[0].Key()
		if lit, known := s.strEq[xk]; known {
			if (lit == c.A[1].S) != pol {
				return false
			}
			return true
		}
		if pol {
			if s.strEq == nil {
				s.strEq = map[string]string{}
			}
			s.strEq[xk] = c.A[1].S
		}
	}
	if c.Op == "in" && len(c.A) >= 1 {
		x := c.A[0]
		if dom, ok := e.W.enumDomain(x.Ty); ok {
			mask := uint64(0)
			for _, el := range c.A[1:] {
				if el.IsConst() && el.C >= 0 && el.C < 64 {
					mask |= 1 << uint(el.C)
				}
			}
			k := x.Key()
			cur, have := s.sets[k]
			if !have {
				cur = dom
			}
			nw := cur & mask
			if !pol {
				nw = cur &^ mask
			}
			if nw == 0 {
				return false
			}
			s.sets[k], s.setT[k] = nw, x
			s.conds = append(s.conds, Cond{Atom: c, Val: pol, Pos: pos, Block: s.curBlk})
			return true
		}
	}
	k := c.Key()
	if v, ok := s.atoms[k]; ok {
		if v != pol {
			return false
		}
		return true
	}
	s.atoms[k] = pol
	s.conds = append(s.conds, Cond{Atom: c, Val: pol, Pos: pos, Block: s.curBlk})
	return true
}

func (e *Explorer) call(s *pstate, in ssa.Instruction, c *ssa.CallCommon, v ssa.Value, blk int) {
	// builtins
	if bi, ok := c.Value.(*ssa.Builtin); ok {
		var args []*T
		for _, a := range c.Args {
			args = append(args, e.val(s, a))
		}
		switch bi.Name() {
		case "len", "cap":
			s.regs[v] = &T{Op: bi.Name(), A: args, Ty: v.Type()}
			if args[0].Op == "str" {
				s.regs[v] = tconst(int64(len(args[0].S)), v.Type())
			}
			if n, ok := staticLen(args[0]); ok {
				s.regs[v] = tconst(n, v.Type())
			}
		default:
			r := &T{Op: "builtin", S: bi.Name(), A: args, Ty: v.Type()}
			s.regs[v] = r
			s.events = append(s.events, Event{Kind: "builtin", Instr: in, Pos: in.Pos(), Method: bi.Name(), Args: args, Res: r, Block: blk})
		}
		return
	}
	e.callEvent(s, "call", in, c, v, blk)
}

// current: would every memory read inside t give the same term if it were
// made now?
func (e *Explorer) current(s *pstate, t *T) bool {
	ok := true
	t.walk(func(x *T) bool {
		if ok && x.E != 0 && (x.Op == "sel" || x.Op == "elem" || x.Op == "deref" || x.Op == "global") {
			lv := *x
			lv.E, lv.k, lv.FV = 0, "", nil
			// (unknown code — reporter callbacks — is assumed not to change the
			// simulator behind its back: the documented assumption of BOUNDS;
			// stores and calls into the module do count)
			if r := e.loadLV(s, &lv, x.Ty); r.Key() != x.Key() && !(r.E%1000 == x.E%1000 && stripEpoch(r).Key() == stripEpoch(x).Key()) {
				ok = false
			}
		}
		return ok
	})
	return ok
}

func (e *Explorer) callEvent(s *pstate, kind string, in ssa.Instruction, c *ssa.CallCommon, v ssa.Value, blk int) {
	var args []*T
	s.seq++
	ev := Event{Kind: kind, Instr: in, Pos: in.Pos(), Block: blk, Epoch: s.seq, Ver: s.verAll}
	if c.IsInvoke() {
		args = append(args, e.val(s, c.Value))
		ev.Method = c.Method.Name()
	} else if callee := c.StaticCallee(); callee != nil {
		ev.Callee = callee
	} else if e.resolved != nil {
		ev.Callee = e.resolved
		if e.resolvedRecv != nil {
			args = append(args, e.resolvedRecv)
		}
	} else {
		ev.Method = "<dynamic>"
		args = append(args, e.val(s, c.Value))
	}
	for _, a := range c.Args {
		args = append(args, e.val(s, a))
	}
	ev.Args = args
	if kind == "call" && ev.Callee != nil && len(ev.Callee.Blocks) > 0 && (ev.Callee.Pkg == e.W.SLib || ev.Callee.Pkg == e.W.SCmd) {
		for _, a := range args {
			ev.Cur = append(ev.Cur, e.current(s, a))
		}
	}
	if kind == "call" && v != nil && e.modelBuilder(s, &ev, v) {
		s.events = append(s.events, ev)
		return
	}
	// strings.ToLower / ToUpper of a constant is a constant
	if kind == "call" && v != nil && ev.Callee != nil && ev.Callee.Pkg != nil && ev.Callee.Pkg.Pkg.Path() == "strings" && len(args) == 1 && args[0].Op == "str" {
		var r *T
		switch ev.Callee.Name() {
		case "ToLower":
			r = tstr(strings.ToLower(args[0].S))
		case "ToUpper":
			r = tstr(strings.ToUpper(args[0].S))
		}
		if r != nil {
			ev.Res, s.regs[v] = r, r
			s.events = append(s.events, ev)
			return
		}
	}
	if kind == "call" && v != nil && e.modelContains(s, &ev, v) {
		s.events = append(s.events, ev)
		return
	}
	if kind == "call" {
		e.havoc(s, ev.Callee)
	}
	if v != nil && ev.Callee != nil && kind == "call" {
		if t := e.inlinePure(ev.Callee, args); t != nil {
			ev.Res = t
			s.regs[v] = t
			s.events = append(s.events, ev)
			return
		}
	}
	if v != nil {
		name := ev.Method
		if ev.Callee != nil {
			name = fnKey(ev.Callee)
		}
		r := &T{Op: "call", S: name, A: args, Ty: v.Type()}
		if ev.Callee == nil || !e.W.isPure(ev.Callee) {
			r.E = s.seq
		}
		ev.Res = r
		s.regs[v] = r
	}
	s.events = append(s.events, ev)
}

// inlinePure: a pure, branch-free library helper whose single result is an
// expression over its parameters and write-once fields is replaced by that
// expression (so moving `(PC+1)%s.m` into a helper changes no term).
var inlining = map[*ssa.Function]bool{}

func (e *Explorer) inlinePure(fn *ssa.Function, args []*T) *T {
	if fn.Pkg != e.W.SLib || !e.W.isPure(fn) || fn.Signature.Results().Len() != 1 || inlining[fn] || len(fn.Blocks) != 1 {
		return nil
	}
	if ast.IsExported(fn.Name()) || e.W.boundary[fn] != "" {
		return nil // exported API and anchors stay calls: rules look for them
	}
	inlining[fn] = true
	defer delete(inlining, fn)
	paths, err := e.W.Paths(fn)
	if err != nil || len(paths) != 1 || paths[0].End != "ret" || len(paths[0].Ret) != 1 {
		return nil
	}
	for _, ev := range paths[0].Events {
		if ev.Kind != "ret" {
			return nil
		}
	}
	ret := paths[0].Ret[0]
	if ret.contains(func(x *T) bool { return x.E != 0 || x.Op == "unk" || x.Op == "outer" }) {
		return nil
	}
	sub := map[string]*T{}
	for i, p := range fn.Params {
		if i < len(args) {
			sub[p.Name()] = args[i]
		}
	}
	return rewrite(ret, func(x *T) *T {
		if x.Op == "p" {
			if a, ok := sub[x.S]; ok {
				return a
			}
		}
		return nil
	})
}

// staticLen: the length of a slice of a whole array of known size (a
// composite literal), or of an array.
func staticLen(t *T) (int64, bool) {
	arrLen := func(ty types.Type) (int64, bool) {
		if ty == nil {
			return 0, false
		}
		if p, ok := ty.Underlying().(*types.Pointer); ok {
			ty = p.Elem()
		}
		if a, ok := ty.Underlying().(*types.Array); ok {
			return a.Len(), true
		}
		return 0, false
	}
	if t.Op == "slice" && len(t.A) == 4 && (t.A[1].Op == "none" || t.A[1].IsConstVal(0)) && t.A[3].Op == "none" {
		if t.A[2].Op == "none" {
			return arrLen(t.A[0].Ty)
		}
		if t.A[2].IsConst() {
			return t.A[2].C, true
		}
	}
	return 0, false
}

// freshBase: the array behind an element lvalue when it is storage created
// in the function itself (a composite literal); slices of the whole array
// name the same storage.
func freshBase(b *T) (*T, bool) {
	for b.Op == "slice" && len(b.A) == 4 && (b.A[1].Op == "none" || b.A[1].IsConstVal(0)) {
		b = b.A[0]
	}
	if b.Op == "new" || b.Op == "alloc" || b.Op == "global" {
		return b, true // storage with one name: the function's own allocation, or a package-level variable
	}
	return b, false
}

// countedLoop: the loop at header h is left by a comparison of an induction
// variable (a header phi that every back edge advances by a constant, or that
// phi plus a constant) with a value computed outside the loop.  Only such
// loops can have a statically known trip count.  Returns the comparison, which
// operand is the induction variable, and its step per iteration.
type loopShape struct {
	cmp   *ssa.BinOp
	indX  bool  // the induction variable is cmp.X (else cmp.Y)
	step  int64 // advance per iteration
	contT bool  // the loop continues on the true branch
}

func countedLoop(h *ssa.BasicBlock) (loopShape, bool) {
	var sh loopShape
	ifi, ok := h.Instrs[len(h.Instrs)-1].(*ssa.If)
	if !ok {
		return sh, false
	}
	cmp, ok := ifi.Cond.(*ssa.BinOp)
	if !ok {
		return sh, false
	}
	switch cmp.Op {
	case token.LSS, token.LEQ, token.GTR, token.GEQ, token.NEQ:
	default:
		return sh, false
	}
	constOf := func(v ssa.Value) (int64, bool) {
		c, ok := v.(*ssa.Const)
		if !ok || c.Value == nil {
			return 0, false
		}
		return c.Int64(), true
	}
	induction := func(v ssa.Value) (int64, bool) {
		if b, ok := v.(*ssa.BinOp); ok && (b.Op == token.ADD || b.Op == token.SUB) {
			if _, isC := b.Y.(*ssa.Const); isC {
				v = b.X
			}
		}
		phi, ok := v.(*ssa.Phi)
		if !ok || phi.Block() != h {
			return 0, false
		}
		step, have := int64(0), false
		for i, pred := range h.Preds {
			if !h.Dominates(pred) {
				continue // entry edge
			}
			st, ok := phi.Edges[i].(*ssa.BinOp)
			if !ok || (st.Op != token.ADD && st.Op != token.SUB) {
				return 0, false
			}
			k, isC := constOf(st.Y)
			if !isC {
				return 0, false
			}
			if st.Op == token.SUB {
				k = -k
			}
			// the step starts from the phi itself or from the value compared (phi + c)
			if st.X != phi {
				b, ok := st.X.(*ssa.BinOp)
				if !ok || b.X != phi {
					return 0, false
				}
				c, isC := constOf(b.Y)
				if !isC {
					return 0, false
				}
				if b.Op == token.SUB {
					c = -c
				}
				k += c
			}
			if have && k != step {
				return 0, false
			}
			step, have = k, true
		}
		return step, have && step != 0
	}
	invariant := func(v ssa.Value) bool {
		if _, ok := v.(*ssa.Const); ok {
			return true
		}
		if in, ok := v.(ssa.Instruction); ok {
			return in.Block() != nil && !h.Dominates(in.Block())
		}
		_, isParam := v.(*ssa.Parameter)
		return isParam
	}
	sh.cmp = cmp
	// which branch stays in the loop
	inLoop := func(b *ssa.BasicBlock) bool {
		seen := map[*ssa.BasicBlock]bool{}
		var reach func(x *ssa.BasicBlock) bool
		reach = func(x *ssa.BasicBlock) bool {
			if x == h {
				return true
			}
			if seen[x] || !h.Dominates(x) {
				return false
			}
			seen[x] = true
			for _, s := range x.Succs {
				if reach(s) {
					return true
				}
			}
			return false
		}
		return reach(b)
	}
	sh.contT = inLoop(h.Succs[0])
	if sh.contT == inLoop(h.Succs[1]) {
		return sh, false // both or neither branch returns to the header: not a plain exit test
	}
	if k, ok := induction(cmp.X); ok && invariant(cmp.Y) {
		sh.indX, sh.step = true, k
		return sh, true
	}
	if k, ok := induction(cmp.Y); ok && invariant(cmp.X) {
		sh.indX, sh.step = false, k
		return sh, true
	}
	return sh, false
}

// tripsWithin: with the induction operand at v and the other operand at
// bound, does the loop leave within max iterations?
func (sh loopShape) tripsWithin(v, bound int64, max int) bool {
	for n := 0; n <= max; n++ {
		x, y := v, bound
		if !sh.indX {
			x, y = bound, v
		}
		var c bool
		switch sh.cmp.Op {
		case token.LSS:
			c = x < y
		case token.LEQ:
			c = x <= y
		case token.GTR:
			c = x > y
		case token.GEQ:
			c = x >= y
		case token.NEQ:
			c = x != y
		}
		if c != sh.contT {
			return true
		}
		v += sh.step
	}
	return false
}

// iteration: which concrete iteration(s) of the enclosing unrolled loops the
// path is in ("" outside unrolled loops).
func (s *pstate) iteration() string {
	if len(s.unroll) == 0 {
		return ""
	}
	var hs []int
	for h := range s.unroll {
		hs = append(hs, h)
	}
	sort.Ints(hs)
	out := ""
	for _, h := range hs {
		out += fmt.Sprintf("~%d.%d", h, s.unroll[h])
	}
	return out
}

// Text builders.  A strings.Builder (bytes.Buffer) is modelled as one string:
// writing appends to it, String() reads it, and none of it disturbs any other
// memory fact.  `out += x` and `out.WriteString(x)` then build the same term.
func isTextBuilder(t types.Type) bool {
	if p, ok := t.(*types.Pointer); ok {
		t = p.Elem()
	}
	n, ok := t.(*types.Named)
	if !ok || n.Obj().Pkg() == nil {
		return false
	}
	q := n.Obj().Pkg().Path() + "." + n.Obj().Name()
	return q == "strings.Builder" || q == "bytes.Buffer"
}

func builderText(ptr *T) *T {
	var base *T
	switch ptr.Op {
	case "addr":
		base = ptr.A[0]
	case "new", "alloc":
		base = ptr
	default:
		base = &T{Op: "deref", A: []*T{ptr}}
	}
	return &T{Op: "sel", S: "$text", A: []*T{base}, Ty: types.Typ[types.String]}
}

func (e *Explorer) modelBuilder(s *pstate, ev *Event, v ssa.Value) bool {
	cal := ev.Callee
	if cal == nil || len(ev.Args) == 0 {
		return false
	}
	strT := types.Typ[types.String]
	appendText := func(ptr, x *T) {
		lv := builderText(ptr)
		cur := e.loadLV(s, lv, strT)
		nv := mkbin("+", cur, x, strT)
		s.bump(lv)
		s.heap[lv.Key()], s.heapLV[lv.Key()] = nv, lv
		s.events = append(s.events, Event{Kind: "store", Instr: ev.Instr, Pos: ev.Pos, LV: lv, Val: nv, Block: ev.Block, Epoch: s.seq})
	}
	// fmt.Fprint* into a builder
	if cal.Pkg != nil && cal.Pkg.Pkg.Path() == "fmt" && strings.HasPrefix(cal.Name(), "Fprint") {
		w := ev.Args[0]
		if w.Op == "iface" && isTextBuilder(w.A[0].Ty) {
			txt := &T{Op: "call", S: "fmt.S" + strings.TrimPrefix(cal.Name(), "F"), A: ev.Args[1:], Ty: strT}
			appendText(w.A[0], txt)
			r := &T{Op: "tuple", A: []*T{{Op: "len", A: []*T{txt}}, {Op: "nil"}}, Ty: v.Type()}
			ev.Res, s.regs[v] = r, r
			return true
		}
		return false
	}
	recv := cal.Signature.Recv()
	if recv == nil || !isTextBuilder(recv.Type()) {
		return false
	}
	ptr := ev.Args[0]
	var r *T
	switch cal.Name() {
	case "WriteString", "Write":
		if len(ev.Args) != 2 {
			return false
		}
		appendText(ptr, ev.Args[1])
		r = &T{Op: "tuple", A: []*T{{Op: "len", A: []*T{ev.Args[1]}}, {Op: "nil"}}, Ty: v.Type()}
	case "WriteByte":
		appendText(ptr, &T{Op: "conv", S: "string", A: []*T{ev.Args[1]}, Ty: strT})
		r = &T{Op: "nil"}
	case "WriteRune":
		appendText(ptr, &T{Op: "conv", S: "string", A: []*T{ev.Args[1]}, Ty: strT})
		r = &T{Op: "tuple", A: []*T{e.unk("runelen", nil), {Op: "nil"}}, Ty: v.Type()}
	case "String":
		r = e.loadLV(s, builderText(ptr), strT)
	case "Len":
		r = &T{Op: "len", A: []*T{e.loadLV(s, builderText(ptr), strT)}, Ty: v.Type()}
	case "Reset":
		lv := builderText(ptr)
		s.bump(lv)
		s.heap[lv.Key()], s.heapLV[lv.Key()] = tstr(""), lv
		r = &T{Op: "none"}
	case "Grow":
		r = &T{Op: "none"}
	default:
		return false
	}
	ev.Res, s.regs[v] = r, r
	return true
}

// loopBody: the natural loop of header h (blocks from which a back edge to h
// is reachable without leaving through h).
func (e *Explorer) loopBody(h *ssa.BasicBlock) map[*ssa.BasicBlock]bool {
	body := map[*ssa.BasicBlock]bool{h: true}
	var work []*ssa.BasicBlock
	for _, p := range h.Preds {
		if h.Dominates(p) && !body[p] {
			body[p] = true
			work = append(work, p)
		}
	}
	for len(work) > 0 {
		b := work[len(work)-1]
		work = work[:len(work)-1]
		for _, p := range b.Preds {
			if !body[p] && h.Dominates(p) {
				body[p] = true
				work = append(work, p)
			}
		}
	}
	return body
}

func (e *Explorer) onStack(s *pstate, fn *ssa.Function) bool {
	if fn == e.Fn {
		return true
	}
	for _, f := range s.stack {
		if f.fn == fn {
			return true
		}
	}
	return false
}

// modelContains: slices.Contains(list, x) over a list whose elements are
// known constants (a literal, a read-only table) is the disjunction
// x == c1 || ... || x == cn, kept as one "in" term that assume() can use to
// narrow x when it is of an enumerated type.
func (e *Explorer) modelContains(s *pstate, ev *Event, v ssa.Value) bool {
	cal := ev.Callee
	if cal == nil || len(ev.Args) != 2 || !strings.HasPrefix(fnKey(cal), "slices.Contains[") {
		return false
	}
	list := stripConv(ev.Args[0])
	n, ok := staticLen(list)
	if !ok || n > 64 {
		return false
	}
	base, fresh := freshBase(list)
	if !fresh {
		return false
	}
	var elems []*T
	for i := int64(0); i < n; i++ {
		lv := &T{Op: "elem", A: []*T{base, tconst(i, types.Typ[types.Int])}}
		x := e.loadLV(s, lv, nil)
		if !x.IsConst() && x.Op != "str" {
			return false
		}
		elems = append(elems, x)
	}
	r := &T{Op: "in", A: append([]*T{ev.Args[1]}, elems...), Ty: v.Type()}
	ev.Res, s.regs[v] = r, r
	return true
}

// modelIndexByte: strings.IndexByte / IndexRune / ContainsRune over a
// constant string is a chain of comparisons of the character with each
// character of the string: the path is split, one continuation per distinct
// character plus one for "none of them", and the result is a constant on
// each.  done: the result register is set; took: the exploration was taken over.
func (e *Explorer) modelIndexByte(b *ssa.BasicBlock, pred, ii int, s *pstate, start int, in *ssa.Call) (done, took bool) {
	cal := in.Call.StaticCallee()
	if cal == nil || cal.Pkg == nil || cal.Pkg.Pkg.Path() != "strings" || len(in.Call.Args) != 2 {
		return false, false
	}
	name := cal.Name()
	if name != "IndexByte" && name != "IndexRune" && name != "ContainsRune" {
		return false, false
	}
	str := e.val(s, in.Call.Args[0])
	if str.Op != "str" || len(str.S) == 0 || len(str.S) > 16 {
		return false, false
	}
	for _, c := range []byte(str.S) {
		if c >= 0x80 {
			return false, false
		}
	}
	x := e.val(s, in.Call.Args[1])
	result := func(i int) *T {
		if name == "ContainsRune" {
			if i >= 0 {
				return tconst(1, in.Type())
			}
			return tconst(0, in.Type())
		}
		return tconst(int64(i), in.Type())
	}
	known := func(c byte) (val, have bool) {
		k := mkeq(x, tconst(int64(c), x.Ty)).Key()
		for _, cd := range s.conds {
			if cd.Atom.Key() == k {
				return cd.Val, true
			}
		}
		return false, false
	}
	var distinct []byte
	for i := 0; i < len(str.S); i++ {
		if strings.IndexByte(str.S, str.S[i]) == i {
			distinct = append(distinct, str.S[i])
		}
	}
	allFalse := true
	for _, c := range distinct {
		v, have := known(c)
		if have && v {
			s.regs[in] = result(strings.IndexByte(str.S, c))
			return true, false
		}
		if !have {
			allFalse = false
		}
	}
	if allFalse {
		s.regs[in] = result(-1)
		return true, false
	}
	if e.probing || len(s.stack) > 8 {
		return false, false
	}
	for k := 0; k <= len(distinct); k++ {
		ns := s.clone()
		ns.curBlk = s.rootBlk(b)
		ok := true
		for j, c := range distinct {
			if _, have := known(c); have && k != j {
				continue
			}
			if !e.assume(ns, mkeq(x, tconst(int64(c), x.Ty)), k == j, in.Pos()) {
				ok = false
				break
			}
			if k == j {
				break
			}
		}
		if !ok {
			continue
		}
		e.runFrom(b, pred, ii, ns, start)
		if e.Err != nil {
			return false, true
		}
	}
	return false, true
}

// concrete: a term of an enumerated type that the path has narrowed to one
// value is that value.
func (e *Explorer) concrete(s *pstate, t *T) *T {
	x := stripConv(t)
	if x.IsConst() {
		return t
	}
	if set, ok := s.sets[x.Key()]; ok && set != 0 && set&(set-1) == 0 {
		v := int64(0)
		for set > 1 {
			set >>= 1
			v++
		}
		return tconst(v, t.Ty)
	}
	return t
}

// forkOnTableIndex: the instruction at b.Instrs[ii] indexes a table the
// package initialiser built (nothing else writes it) with a value of an
// enumerated type that is not yet narrowed to one constant.  The path is
// split, one continuation per possible value, so that the table entry is a
// constant on each.  Returns true when it took over the exploration.
func (e *Explorer) forkOnTableIndex(b *ssa.BasicBlock, pred, ii int, s *pstate, start int, base *T, index ssa.Value) bool {
	if e.probing || len(s.stack) > 8 {
		return false
	}
	root := base
	if fb, ok := freshBase(base); ok {
		root = fb
	}
	for root.Op == "sel" || root.Op == "elem" {
		root = root.A[0]
	}
	if !(root.Op == "global" && e.W.readOnlyGlobal(root.S)) && !e.W.initialised(root) {
		return false
	}
	return e.forkOnEnum(b, pred, ii, s, start, index)
}

// forkOnEnum continues from b.Instrs[ii] once per value the enumerated index
// can still have on this path.
func (e *Explorer) forkOnEnum(b *ssa.BasicBlock, pred, ii int, s *pstate, start int, index ssa.Value) bool {
	if e.probing || len(s.stack) > 8 {
		return false
	}
	idx := stripConv(e.val(s, index))
	if idx.IsConst() {
		return false
	}
	dom, ok := e.W.enumDomain(idx.Ty)
	if !ok {
		return false
	}
	cur, have := s.sets[idx.Key()]
	if !have {
		cur = dom
	}
	if cur&(cur-1) == 0 {
		return false // already one value
	}
	n := 0
	for v := int64(0); v < 64; v++ {
		if cur&(1<<uint(v)) == 0 {
			continue
		}
		n++
		ns := s.clone()
		ns.curBlk = s.rootBlk(b)
		if !e.assume(ns, &T{Op: "eq", A: []*T{idx, tconst(v, idx.Ty)}}, true, b.Instrs[ii].Pos()) {
			continue
		}
		e.runFrom(b, pred, ii, ns, start)
		if e.Err != nil {
			return true
		}
	}
	return n > 0
}

// embeddedStruct: f is an embedded (anonymous) field of struct type: its
// fields are promoted into the enclosing struct.
func embeddedStruct(f *types.Var) bool {
	if !f.Embedded() {
		return false
	}
	_, ok := f.Type().Underlying().(*types.Struct)
	return ok
}

// boundMethod: the method a "$bound" wrapper (a method value) calls.
func boundMethod(w *World, wrapper *ssa.Function) *ssa.Function {
	for _, b := range wrapper.Blocks {
		for _, in := range b.Instrs {
			if c, ok := in.(*ssa.Call); ok {
				if cal := c.Call.StaticCallee(); cal != nil && w.inPkgs(cal) {
					return cal
				}
			}
		}
	}
	return nil
}
