package main

// A small linear-arithmetic fallback for the bounds obligations.  The tests
// on a path, the signedness of the terms and the queue invariants (cursors in
// the ring, length <= capacity: established inductively by MOD.queue and
// QUEUE.cap) are read as facts "L >= 0" over the integers; a goal G >= 0 is
// discharged when G minus the sum of at most four of them is a non-negative
// constant.  An unsigned subtraction a-b is read as the integer a-b only
// where a >= b is itself derivable, so wrap-around is not assumed away.

import (
	"go/types"
	"sort"

	"golang.org/x/tools/go/ssa"
)

type linProver struct {
	q     queueAnchors
	qT    string // "*" + the queue type's name
	hasQ  bool
	facts []*Lin
	why   []string
}

const capKey = "<capacity>"

func isUnsigned(ty types.Type) bool {
	if ty == nil {
		return false
	}
	if b, ok := ty.Underlying().(*types.Basic); ok {
		return b.Info()&types.IsUnsigned != 0
	}
	return false
}

func isInteger(ty types.Type) bool {
	if ty == nil {
		return false
	}
	if b, ok := ty.Underlying().(*types.Basic); ok {
		return b.Info()&types.IsInteger != 0
	}
	return false
}

// clin linearises t with every spelling of the queue capacity (the size
// field, len(buffer)) as one atom.
func (lp *linProver) clin(t *T) *Lin {
	l := linearOf(t)
	if !lp.hasQ {
		return l
	}
	out := &Lin{Coef: map[string]int64{}, Atom: map[string]*T{}, Const: l.Const}
	for k, c := range l.Coef {
		at := l.Atom[k]
		if lp.isCap(at) {
			out.Coef[capKey] += c
			out.Atom[capKey] = at
			continue
		}
		out.Coef[k] += c
		out.Atom[k] = at
	}
	for k, c := range out.Coef {
		if c == 0 {
			delete(out.Coef, k)
			delete(out.Atom, k)
		}
	}
	return out
}

// queueField: t reads field f of a queue (and not a like-named field of something else).
func (lp *linProver) queueField(t *T, f string) bool {
	recv, ok := selOf(t, f)
	return ok && f != "" && typeName(recv.Ty) == lp.qT
}

func (lp *linProver) isCap(t *T) bool {
	t = stripConv(t)
	if lp.q.size != "" && lp.queueField(t, lp.q.size) {
		return true
	}
	return t.Op == "len" && lp.queueField(t.A[0], lp.q.buf)
}

func linSub(a, b *Lin) *Lin {
	out := &Lin{Coef: map[string]int64{}, Atom: map[string]*T{}, Const: a.Const - b.Const}
	for k, c := range a.Coef {
		out.Coef[k] += c
		out.Atom[k] = a.Atom[k]
	}
	for k, c := range b.Coef {
		out.Coef[k] -= c
		out.Atom[k] = b.Atom[k]
	}
	for k, c := range out.Coef {
		if c == 0 {
			delete(out.Coef, k)
			delete(out.Atom, k)
		}
	}
	return out
}

// domainFacts: what holds of the atoms of l by type or invariant.
func (lp *linProver) domainFacts(l *Lin, seen map[string]bool) {
	keys := make([]string, 0, len(l.Atom))
	for k := range l.Atom {
		keys = append(keys, k)
	}
	sort.Strings(keys)
	for _, k := range keys {
		at := l.Atom[k]
		if seen[k] {
			continue
		}
		seen[k] = true
		one := func(coefs map[string]int64, c int64) *Lin {
			f := &Lin{Coef: map[string]int64{}, Atom: map[string]*T{}, Const: c}
			for kk, cc := range coefs {
				f.Coef[kk] = cc
				if kk == capKey {
					f.Atom[kk] = &T{Op: "cap"}
				} else {
					f.Atom[kk] = at
				}
			}
			return f
		}
		s := stripConv(at)
		if k == capKey || isUnsigned(at.Ty) || s.Op == "len" || s.Op == "cap" {
			lp.facts = append(lp.facts, one(map[string]int64{k: 1}, 0))
		}
		if lp.hasQ && k != capKey {
			for _, cf := range lp.q.cursors {
				if lp.queueField(s, cf) {
					lp.facts = append(lp.facts, one(map[string]int64{capKey: 1, k: -1}, -1)) // cursor <= capacity-1
				}
			}
			if lp.queueField(s, lp.q.length) {
				lp.facts = append(lp.facts, one(map[string]int64{capKey: 1, k: -1}, 0)) // length <= capacity
			}
		}
	}
}

// prove: goal >= 0 from at most four facts.
func (lp *linProver) prove(goal *Lin) bool {
	if len(goal.Coef) == 0 {
		return goal.Const >= 0
	}
	// only facts that mention an atom the goal (transitively) mentions
	rel := map[string]bool{}
	for k := range goal.Coef {
		rel[k] = true
	}
	var cand []*Lin
	for changed := true; changed; {
		changed = false
		cand = cand[:0]
		for _, f := range lp.facts {
			touch := false
			for k := range f.Coef {
				if rel[k] {
					touch = true
				}
			}
			if !touch {
				continue
			}
			cand = append(cand, f)
			for k := range f.Coef {
				if !rel[k] {
					rel[k] = true
					changed = true
				}
			}
		}
	}
	if len(cand) > 28 {
		cand = cand[:28]
	}
	var rec func(rest *Lin, from, depth int) bool
	rec = func(rest *Lin, from, depth int) bool {
		if len(rest.Coef) == 0 && rest.Const >= 0 {
			return true
		}
		if depth == 0 {
			return false
		}
		for i := from; i < len(cand); i++ {
			if rec(linSub(rest, cand[i]), i, depth-1) {
				return true
			}
		}
		return false
	}
	return rec(goal, 0, 4)
}

// wellDefined: every unsigned subtraction inside t is of a larger-or-equal
// minuend, so that reading it over the integers is right.
func (lp *linProver) wellDefined(t *T, seen map[string]bool) bool {
	ok := true
	t.walk(func(x *T) bool {
		if ok && x.Op == "sub" && len(x.A) == 2 && isUnsigned(x.Ty) {
			d := linSub(lp.clin(x.A[0]), lp.clin(x.A[1]))
			lp.domainFacts(d, seen)
			if !lp.prove(d) {
				ok = false
			}
		}
		return ok
	})
	return ok
}

func newLinProver(w *World, c *simCtx, p *Path) (*linProver, map[string]bool) {
	lp := &linProver{}
	if q := resolveQueue(w, c); q.err == "" && c.a.QueueT != nil {
		lp.q, lp.hasQ, lp.qT = q, true, "*"+c.a.QueueT.Obj().Name()
	}
	seen := map[string]bool{}
	for i := range p.Conds {
		cd := &p.Conds[i]
		a := cd.Atom
		if len(a.A) != 2 || !(a.Op == "lt" || a.Op == "le" || a.Op == "eq") {
			continue
		}
		if !isInteger(a.A[0].Ty) && !isInteger(a.A[1].Ty) && stripConv(a.A[0]).Op != "len" && stripConv(a.A[1]).Op != "len" {
			continue
		}
		x, y := lp.clin(a.A[0]), lp.clin(a.A[1])
		lp.domainFacts(x, seen)
		lp.domainFacts(y, seen)
		if !lp.wellDefined(a.A[0], seen) || !lp.wellDefined(a.A[1], seen) {
			continue
		}
		var fs []*Lin
		switch {
		case a.Op == "lt" && cd.Val: // x < y: y - x - 1 >= 0
			f := linSub(y, x)
			f.Const--
			fs = append(fs, f)
		case a.Op == "lt" && !cd.Val: // x >= y
			fs = append(fs, linSub(x, y))
		case a.Op == "le" && cd.Val:
			fs = append(fs, linSub(y, x))
		case a.Op == "le" && !cd.Val:
			f := linSub(x, y)
			f.Const--
			fs = append(fs, f)
		case a.Op == "eq" && cd.Val:
			fs = append(fs, linSub(x, y), linSub(y, x))
		}
		lp.facts = append(lp.facts, fs...)
	}
	return lp, seen
}

// linearBounds: the index or slice operation e is in range by linear
// arithmetic over the facts of its path.
func linearBounds(w *World, c *simCtx, fn *ssa.Function, p *Path, e *Event) (bool, string) {
	lp, seen := newLinProver(w, c, p)
	base := stripConv(e.Args[0])
	// the length (for the low bound and an index) and the capacity (for the high bound of a slice)
	var length *Lin
	switch {
	case base.Op == "makeslice":
		length = lp.clin(base.A[0])
		if !lp.wellDefined(base.A[0], seen) {
			return false, ""
		}
	default:
		length = lp.clin(&T{Op: "len", A: []*T{base}, Ty: types.Typ[types.Int]})
	}
	lp.domainFacts(length, seen)
	goalGE := func(hi *Lin, lo *Lin, strict bool) bool {
		g := linSub(hi, lo)
		if strict {
			g.Const--
		}
		lp.domainFacts(g, seen)
		return lp.prove(g)
	}
	zero := &Lin{Coef: map[string]int64{}, Atom: map[string]*T{}}
	term := func(t *T) (*Lin, bool) {
		if !lp.wellDefined(t, seen) {
			return nil, false
		}
		l := lp.clin(t)
		lp.domainFacts(l, seen)
		return l, true
	}
	if e.Kind == "slice" {
		lo, hi := zero, length
		if e.Args[1].Op != "none" {
			l, ok := term(e.Args[1])
			if !ok {
				return false, ""
			}
			lo = l
		}
		if e.Args[2].Op != "none" {
			h, ok := term(e.Args[2])
			if !ok {
				return false, ""
			}
			hi = h
		}
		// 0 <= lo <= hi <= len (len <= cap, so this is sufficient)
		if goalGE(lo, zero, false) && goalGE(hi, lo, false) && goalGE(length, hi, false) {
			return true, "0 <= low <= high <= len by linear arithmetic over the path's tests" + lp.note()
		}
		return false, ""
	}
	ix, ok := term(e.Args[1])
	if !ok {
		return false, ""
	}
	if goalGE(ix, zero, false) && goalGE(length, ix, true) {
		return true, "0 <= i < len by linear arithmetic over the path's tests" + lp.note()
	}
	return false, ""
}

func (lp *linProver) note() string {
	if lp.hasQ {
		return " (with the queue invariants of MOD.queue / QUEUE.cap where a queue field occurs)"
	}
	return ""
}
