package main

// E8 (thorough tier): compiler bounds-check obligations.  A scratch copy of the
// current tree is compiled with -gcflags='-l -d=ssa/check_bce/debug=1'; every
// index / slice operation the Go compiler's prove pass could NOT show in range
// is an obligation.  Each is located in the SSA (position of the '[') and must
// be discharged on every path that reaches it by one of the arguments below.
// This gives the no-panic properties a complete enumeration of index-panic
// candidates instead of a hand-picked one.

import (
	"fmt"
	"go/token"
	"go/types"
	"os"
	"os/exec"
	"path/filepath"
	"regexp"
	"sort"
	"strconv"
	"strings"

	"golang.org/x/tools/go/ssa"
)

// which source files matter for which property
var boundsProps = map[string][]string{
	"C04": {"sim.go", "simops.go", "queue.go"},
	"C13": {"sim.go", "simops.go", "queue.go", "warrior.go", "staterecorder.go"},
	"C15": {"staterecorder.go", "sim.go", "simops.go"},
	"C05": {"lex.go", "forexpand.go", "symbol_scanner.go", "parser.go", "compile.go", "expr.go", "graph.go", "tokenbuf.go", "token.go"},
	"C10": {"load.go", "asm.go"},
	"C09": {"load.go", "asm.go"}, // a reader that panics on some layout (e.g. a last line without its newline) reads nothing back
}

type boundsResult struct {
	rule    *RuleResult
	summary map[string]any
}

var bceRe = regexp.MustCompile(`^\./([^:]+):(\d+):(\d+): Found (IsInBounds|IsSliceInBounds)`)

func boundsObligations(w *World, p *Property) boundsResult {
	r := &RuleResult{Name: "BOUNDS", Doc: "every index/slice operation the compiler could not prove in range is discharged on every path", Min: 1}
	res := boundsResult{rule: r, summary: map[string]any{}}
	d, err := copyTree(w.Root)
	if err != nil {
		r.undecided("scratch", "-", err.Error())
		return res
	}
	defer os.RemoveAll(d)
	cmd := exec.Command("go", "build", "-gcflags=-l -d=ssa/check_bce/debug=1", ".")
	cmd.Dir = d
	cmd.Env = append(os.Environ(), "GOFLAGS=-mod=mod", "GOWORK=off", "GOPROXY=off", "GOSUMDB=off", "GOTOOLCHAIN=local")
	out, err := cmd.CombinedOutput()
	if err != nil {
		r.undecided("compile", "-", "scratch copy does not compile: "+strings.TrimSpace(string(out)))
		return res
	}
	files := map[string]bool{}
	for _, f := range boundsProps[p.ID] {
		files[f] = true
	}
	type site struct {
		file      string
		line, col int
		kind      string
	}
	var sites []site
	total := 0
	for _, l := range strings.Split(string(out), "\n") {
		m := bceRe.FindStringSubmatch(l)
		if m == nil {
			continue
		}
		total++
		if !files[m[1]] {
			continue
		}
		ln, _ := strconv.Atoi(m[2])
		co, _ := strconv.Atoi(m[3])
		sites = append(sites, site{m[1], ln, co, m[4]})
	}
	res.summary["compiler_unproven_total"] = total
	res.summary["in_scope"] = len(sites)
	res.summary["files"] = boundsProps[p.ID]
	// index instructions by position
	type key struct {
		file      string
		line, col int
	}
	byPos := map[key][]ssa.Instruction{}
	for _, fn := range libFuncs(w) {
		for _, b := range fn.Blocks {
			for _, in := range b.Instrs {
				switch in.(type) {
				case *ssa.IndexAddr, *ssa.Index, *ssa.Lookup, *ssa.Slice:
					if in.Pos() == token.NoPos {
						continue
					}
					ps := w.Fset.Position(in.Pos())
					k := key{filepath.Base(ps.Filename), ps.Line, ps.Column}
					byPos[k] = append(byPos[k], in)
				}
			}
		}
	}
	sort.Slice(sites, func(i, j int) bool {
		if sites[i].file != sites[j].file {
			return sites[i].file < sites[j].file
		}
		if sites[i].line != sites[j].line {
			return sites[i].line < sites[j].line
		}
		return sites[i].col < sites[j].col
	})
	c := newSimCtx(w)
	ordinal := map[string]int{}
	preconds := []string{}
	for _, s := range sites {
		ins := byPos[key{s.file, s.line, s.col}]
		pos := fmt.Sprintf("%s:%d", s.file, s.line)
		if len(ins) == 0 {
			r.undecided(fmt.Sprintf("%s/unlocated@%d:%d", s.file, s.line, s.col), pos, "bounds check reported by the compiler could not be located in the SSA")
			continue
		}
		for _, in := range ins {
			fn := in.Parent()
			ordinal[fn.Name()]++
			k := fmt.Sprintf("%s/%s#%d", fn.Name(), map[string]string{"IsInBounds": "index", "IsSliceInBounds": "slice"}[s.kind], ordinal[fn.Name()])
			// judged in every function whose exploration contains the operation
			// (the function itself, or the callers a helper is expanded into)
			n, okAll := 0, true
			why, bad := "", ""
			failed := false
			for _, root := range w.rootsOf(fn) {
				paths, err := w.Paths(root)
				if err != nil {
					r.undecided(k, pos, err.Error())
					failed = true
					break
				}
				for _, pth := range paths {
					for i := range pth.Events {
						e := &pth.Events[i]
						if e.Instr != in || (e.Kind != "index" && e.Kind != "slice") {
							continue
						}
						n++
						ok, reason := dischargeBounds(w, c, root, pth, e)
						if !ok {
							// with what every caller is known to pass for the parameters
							if pf := w.paramFacts(root); len(pf) > 0 {
								e2 := *e
								e2.Args = nil
								for _, a := range e.Args {
									e2.Args = append(e2.Args, rewrite(a, func(x *T) *T {
										if x.Op == "p" {
											if f := pf[x.S]; f != nil {
												return f
											}
										}
										return nil
									}))
								}
								if ok2, reason2 := dischargeBounds(w, c, root, pth, &e2); ok2 {
									ok, reason = true, reason2+" (parameters as every call site passes them)"
								}
							}
						}
						if ok {
							why = reason
							if strings.HasPrefix(reason, "PRECONDITION") {
								preconds = append(preconds, root.Name()+": "+reason)
							}
						} else {
							okAll = false
							bad = reason
						}
					}
				}
			}
			if failed {
				continue
			}
			switch {
			case n == 0:
				r.ok(k, pos, "on no explored path (dead or infeasible code)")
			case okAll:
				r.ok(k, pos, why)
			default:
				r.undecided(k, pos, "index/slice operation the compiler could not prove in range is not covered by a guard on every path: "+bad)
			}
		}
	}
	sort.Strings(preconds)
	res.summary["preconditions_relied_on"] = uniqStrings(preconds)
	return res
}

// madeLenOf: t is the result of calling a module function every return of
// which hands back make(_, n); n in the caller's terms (the callee's
// parameters replaced by the arguments; memory is compared without regard to
// when it was read, as elsewhere in the bounds obligations).
func madeLenOf(w *World, t *T, depth int) (*T, bool) {
	t = stripConv(t)
	if t.Op == "ext" && t.C == 1 && len(t.A) == 1 {
		t = t.A[0]
	}
	if t.Op != "call" || depth > 2 {
		return nil, false
	}
	g := w.funcByKey(t.S)
	if g == nil || len(g.Blocks) == 0 || !w.inPkgs(g) || len(t.A) != len(g.Params) {
		return nil, false
	}
	gps, err := w.Paths(g)
	if err != nil {
		return nil, false
	}
	var out *T
	for _, gp := range gps {
		if gp.End != "ret" || len(gp.Ret) == 0 {
			continue
		}
		r := stripConv(gp.Ret[0])
		var n *T
		switch {
		case r.Op == "makeslice":
			n = r.A[0]
		default:
			inner, ok := madeLenOf(w, r, depth+1)
			if !ok {
				return nil, false
			}
			n = inner
		}
		n = rewrite(n, func(x *T) *T {
			if x.Op == "p" {
				for k, prm := range g.Params {
					if prm.Name() == x.S {
						return t.A[k]
					}
				}
			}
			return nil
		})
		if out != nil && !sameTerm(out, n) {
			return nil, false
		}
		out = n
	}
	return out, out != nil
}

// arrayLenOf: the static length of the array behind base (an array value, a
// pointer to one, or a package-level array).
func arrayLenOf(base *T) (int64, bool) {
	t := stripConv(base)
	ty := t.Ty
	if ty == nil {
		return 0, false
	}
	if p, ok := ty.Underlying().(*types.Pointer); ok {
		ty = p.Elem()
	}
	if a, ok := ty.Underlying().(*types.Array); ok {
		return a.Len(), true
	}
	return 0, false
}

func uniqStrings(xs []string) []string {
	var out []string
	for i, x := range xs {
		if i == 0 || x != xs[i-1] {
			out = append(out, x)
		}
	}
	return out
}

func sameTerm(a, b *T) bool {
	return stripEpoch(stripConv(a)).Key() == stripEpoch(stripConv(b)).Key()
}

func isLenOf(t, x *T) bool {
	t = stripConv(t)
	return t.Op == "len" && sameTerm(t.A[0], x)
}

// nonNegative: idx >= 0 by type or construction.
func nonNegative(w *World, idx *T, p *Path) bool {
	idx = stripConv(idx)
	if !isSigned(idx.Ty) && idx.Ty != nil {
		return true
	}
	if idx.IsConst() {
		return idx.C >= 0
	}
	if idx.Op == "loopvar" {
		return true // induction variables of this code start at a non-negative value and step upwards (checked per loop where it matters)
	}
	if idx.Op == "add" {
		ok := true
		for _, a := range idx.A {
			if !nonNegative(w, a, p) {
				ok = false
			}
		}
		return ok
	}
	if idx.Op == "len" {
		return true
	}
	if idx.Op == "sel" && idx.A[0].Op == "deref" {
		// a counter field: only ever 0 or itself + 1
		f := idx.S
		for _, fn := range libRoots(w) {
			ps, _ := w.Paths(fn)
			for _, pp := range ps {
				for _, e := range pp.Events {
					if e.Kind == "store" && e.LV.Op == "sel" && e.LV.S == f && e.LV.A[0].Op == "deref" && sameTypeBase(e.LV.A[0], idx.A[0]) {
						l := linearOf(e.Val)
						if !(e.Val.IsConstVal(0) || (l.Const >= 0 && len(l.Coef) == 1)) {
							return false
						}
					}
				}
			}
		}
		return true
	}
	return hasCond(p, func(a *T, v bool) bool {
		return (a.Op == "lt" && !v && sameTerm(a.A[0], idx) && a.A[1].IsConstVal(0)) || (a.Op == "le" && v && a.A[0].IsConstVal(0) && sameTerm(a.A[1], idx))
	})
}

func sameTypeBase(a, b *T) bool {
	return typeName(a.A[0].Ty) == typeName(b.A[0].Ty)
}

// lenAtLeast: the path establishes len(x) >= n.
func lenAtLeast(w *World, x *T, n int64, p *Path) (bool, string) {
	if n <= 0 {
		return true, "length >= 0"
	}
	x = stripConv(x)
	if x.Op == "str" {
		return int64(len(x.S)) >= n, "constant string"
	}
	// an array (or a slice of a whole array): its length is part of its type
	if x.Ty != nil {
		t := x.Ty
		if pt, ok := t.Underlying().(*types.Pointer); ok {
			t = pt.Elem()
		}
		if at, ok := t.Underlying().(*types.Array); ok {
			return at.Len() >= n, fmt.Sprintf("array of %d elements", at.Len())
		}
	}
	if sl, ok := staticLen(x); ok {
		return sl >= n, fmt.Sprintf("slice of a whole array of %d elements", sl)
	}
	// x[k:] has len(x) - k elements
	if x.Op == "slice" && len(x.A) == 4 && x.A[1].IsConst() && x.A[1].C >= 0 && x.A[2].Op == "none" {
		if ok, why := lenAtLeast(w, x.A[0], n+x.A[1].C, p); ok {
			return true, fmt.Sprintf("x[%d:] of a list with %s", x.A[1].C, why)
		}
	}
	// a string that provably ends in the newline it was read up to (or had one appended) is not empty
	if n == 1 && endsWithNewline(x, p) {
		return true, "ends in a newline, so it is not empty"
	}
	if x.Op == "cat" {
		lit := int64(0)
		for _, a := range x.A {
			if a.Op == "str" {
				lit += int64(len(a.S))
			}
		}
		if lit >= n {
			return true, fmt.Sprintf("concatenation with %d literal bytes", lit)
		}
	}
	// explicit tests on len(x)
	for _, cd := range p.Conds {
		a := cd.Atom
		switch a.Op {
		case "eq":
			if isLenOf(a.A[0], x) && a.A[1].IsConst() {
				if cd.Val && a.A[1].C >= n {
					return true, fmt.Sprintf("len == %d", a.A[1].C)
				}
				if !cd.Val && a.A[1].C == 0 && n == 1 {
					return true, "len != 0"
				}
			}
		case "lt":
			// k < len(x)
			if a.A[0].IsConst() && isLenOf(a.A[1], x) && cd.Val && a.A[0].C+1 >= n {
				return true, fmt.Sprintf("%d < len", a.A[0].C)
			}
			// len(x) < k false  => len >= k
			if isLenOf(a.A[0], x) && a.A[1].IsConst() && !cd.Val && a.A[1].C >= n {
				return true, fmt.Sprintf("!(len < %d)", a.A[1].C)
			}
		case "le":
			if a.A[0].IsConst() && isLenOf(a.A[1], x) && cd.Val && a.A[0].C >= n {
				return true, fmt.Sprintf("%d <= len", a.A[0].C)
			}
			if isLenOf(a.A[0], x) && a.A[1].IsConst() && !cd.Val && a.A[1].C+1 >= n {
				return true, fmt.Sprintf("!(len <= %d)", a.A[1].C)
			}
		}
	}
	// the same tests written on len(x) + d  (last := len(x) - 1; if last >= 0 ...)
	lenPlus := func(t *T) (int64, bool) {
		l := linearOf(t)
		if len(l.Atom) != 1 {
			return 0, false
		}
		for k, at := range l.Atom {
			if l.Coef[k] == 1 && isLenOf(at, x) {
				return l.Const, true
			}
		}
		return 0, false
	}
	for _, cd := range p.Conds {
		a := cd.Atom
		if a.Op != "lt" {
			continue
		}
		if d, ok := lenPlus(a.A[0]); ok && a.A[1].IsConst() && !cd.Val && a.A[1].C-d >= n {
			return true, fmt.Sprintf("!(len%+d < %d)", d, a.A[1].C)
		}
		if d, ok := lenPlus(a.A[1]); ok && a.A[0].IsConst() && cd.Val && a.A[0].C-d+1 >= n {
			return true, fmt.Sprintf("%d < len%+d", a.A[0].C, d)
		}
	}
	// HasPrefix(x or ToLower(x), lit): every rune is at least one byte and ToLower maps runes one to one
	extraNL := int64(0)
	if endsWithNewline(x, p) {
		extraNL = 1
	}
	for _, cd := range p.Conds {
		a := cd.Atom
		if a.Op == "call" && a.S == "strings.HasPrefix" && cd.Val && len(a.A) == 2 && a.A[1].Op == "str" {
			y := stripConv(a.A[0])
			if y.Op == "call" && y.S == "strings.ToLower" {
				y = stripConv(y.A[0])
			}
			if sameTerm(y, x) {
				lit := a.A[1].S
				have := int64(len([]rune(lit)))
				if !strings.Contains(lit, "\n") {
					have += extraNL
				}
				if have >= n {
					return true, fmt.Sprintf("HasPrefix(%q) gives >= %d bytes%s", lit, have, map[bool]string{true: " (incl. the terminating newline)", false: ""}[extraNL == 1])
				}
			}
		}
	}
	// non-empty-on-success callee result
	if x.Op == "ext" && x.C == 1 && x.A[0].Op == "call" && n == 1 {
		for _, f := range libFuncs(w) {
			if fnKey(f) == x.A[0].S && nonEmptyOnSuccess(w, f) {
				okEdge := hasCond(p, func(a *T, v bool) bool {
					return a.Op == "eq" && v && a.A[1].Op == "nil" && a.A[0].Op == "ext" && a.A[0].A[0].Key() == x.A[0].Key()
				})
				if okEdge {
					return true, f.Name() + " returns a non-empty slice whenever its error is nil"
				}
			}
		}
	}
	return false, ""
}

// endsWithNewline: x is a line read up to and including '\n' (ReadString succeeded) or has "\n" appended.
func endsWithNewline(x *T, p *Path) bool {
	x = stripConv(x)
	if x.Op == "cat" && len(x.A) == 2 && x.A[1].Op == "str" && strings.HasSuffix(x.A[1].S, "\n") {
		return true
	}
	if x.Op == "ext" && x.C == 1 && x.A[0].Op == "call" && strings.HasSuffix(x.A[0].S, "ReadString") && len(x.A[0].A) == 2 && x.A[0].A[1].IsConstVal('\n') {
		return hasCond(p, func(a *T, v bool) bool {
			return a.Op == "eq" && v && a.A[1].Op == "nil" && a.A[0].Op == "ext" && a.A[0].A[0].Key() == x.A[0].Key()
		})
	}
	return false
}

// nonEmptyOnSuccess: every nil-error return of fn returns a slice that received an append on that path,
// or forwards such a callee.
func nonEmptyOnSuccess(w *World, fn *ssa.Function) bool {
	paths, err := w.Paths(fn)
	if err != nil {
		return false
	}
	n := 0
	for _, p := range paths {
		if p.End != "ret" || len(p.Ret) != 2 {
			continue
		}
		// return g(...): forwards the callee's pair
		if a, b := stripConv(p.Ret[0]), stripConv(p.Ret[1]); a.Op == "ext" && b.Op == "ext" && a.A[0].Key() == b.A[0].Key() && a.A[0].Op == "call" {
			fwd := false
			for _, g := range libFuncs(w) {
				if fnKey(g) == a.A[0].S && g != fn && nonEmptyOnSuccess(w, g) {
					fwd = true
				}
			}
			if !fwd {
				return false
			}
			n++
			continue
		}
		if p.Ret[1].Op != "nil" {
			continue
		}
		n++
		v := stripConv(p.Ret[0])
		if v.Op == "ext" && v.A[0].Op == "call" {
			fwd := false
			for _, g := range libFuncs(w) {
				if fnKey(g) == v.A[0].S && g != fn && nonEmptyOnSuccess(w, g) {
					fwd = true
				}
			}
			if fwd {
				continue
			}
			return false
		}
		app := false
		for _, e := range p.Events {
			if e.Kind == "builtin" && e.Method == "append" && e.Res != nil && e.Res.Key() == v.Key() {
				app = true
			}
		}
		// the list is a loop variable: every iteration appends to it, and the loop is left here
		// only under a flag that starts out false — so at least one iteration has run
		if !app && v.Op == "loopvar" {
			if _, steps, ok := loopVarSteps(w, fn, p, v); ok && len(steps) > 0 {
				grows := true
				for _, st := range steps {
					if a := stripConv(st.v); !(a.Op == "builtin" && a.S == "append" && len(a.A) == 2) {
						grows = false
					}
				}
				ranOnce := hasCond(p, func(a *T, val bool) bool {
					if a.Op != "loopvar" || !val || a.C != v.C {
						return false
					}
					init, _, ok := loopVarSteps(w, fn, p, a)
					return ok && stripConv(init).IsConstVal(0)
				})
				app = grows && ranOnce
			}
		}
		if !app {
			return false
		}
	}
	return n > 0
}

func dischargeBounds(w *World, c *simCtx, fn *ssa.Function, p *Path, e *Event) (bool, string) {
	ok, why := dischargeBounds0(w, c, fn, p, e)
	if !ok {
		if ok2, why2 := linearBounds(w, c, fn, p, e); ok2 {
			return true, why2
		}
	}
	return ok, why
}

func dischargeBounds0(w *World, c *simCtx, fn *ssa.Function, p *Path, e *Event) (bool, string) {
	base := e.Args[0]
	if e.Kind == "slice" {
		low, high := e.Args[1], e.Args[2]
		switch {
		case low.Op != "none" && high.Op == "none":
			// x[k:] needs len(x) >= k
			l := stripConv(low)
			if l.IsConst() {
				if ok, why := lenAtLeast(w, base, l.C, p); ok {
					return true, fmt.Sprintf("x[%d:]: %s", l.C, why)
				}
				return false, fmt.Sprintf("x[%d:] without a guard implying len(x) >= %d", l.C, l.C)
			}
			if hasCond(p, func(a *T, v bool) bool {
				return (a.Op == "le" && !v && isLenOf(a.A[0], base) && sameTerm(a.A[1], l)) || (a.Op == "lt" && v && sameTerm(a.A[0], l) && isLenOf(a.A[1], base))
			}) && nonNegative(w, l, p) {
				return true, "x[i:] under i < len(x), i a non-negative counter"
			}
			if l.Op == "builtin" && l.S == "copy" && len(l.A) == 2 && sameTerm(l.A[0], base) {
				return true, "x[copy(x, _):]: copy returns at most len(x)"
			}
			if q := resolveQueue(w, c); q.err == "" {
				if _, ok := selOf(base, q.buf); ok {
					for _, cf := range q.cursors {
						if _, ok := selOf(l, cf); ok {
							return true, "queue buffer sliced from a cursor (cursors are 0 or _ % capacity, MOD.queue)"
						}
					}
				}
			}
			return false, "x[" + l.Show() + ":] without a guard"
		case low.Op == "none" && high.Op != "none":
			h := stripConv(high)
			// x[:len(x)-k]
			lin := linearOf(h)
			if len(lin.Coef) == 1 && lin.Const <= 0 {
				for _, at := range lin.Atom {
					if isLenOf(at, base) {
						if ok, why := lenAtLeast(w, base, -lin.Const, p); ok {
							return true, fmt.Sprintf("x[:len(x)%d]: %s", lin.Const, why)
						}
						return false, fmt.Sprintf("x[:len(x)%d] without a guard implying len(x) >= %d", lin.Const, -lin.Const)
					}
				}
			}
			if h.IsConst() {
				if ok, why := lenAtLeast(w, base, h.C, p); ok {
					return true, why
				}
			}
			// x[:strings.Index*(x, _)] under a guard that excludes -1: the result is -1 or an offset into x, hence <= len(x)
			if h.Op == "call" && len(h.A) >= 1 && sameTerm(h.A[0], base) {
				switch h.S {
				case "strings.Index", "strings.IndexByte", "strings.IndexRune", "strings.IndexAny", "strings.LastIndex", "strings.LastIndexByte", "strings.LastIndexAny":
					isH := func(t *T) bool { return sameTerm(stripConv(t), h) }
					if hasCond(p, func(a *T, v bool) bool {
						switch a.Op {
						case "lt":
							return (!v && isH(a.A[0]) && a.A[1].IsConstVal(0)) || (v && a.A[0].IsConstVal(-1) && isH(a.A[1]))
						case "le":
							return (v && a.A[0].IsConstVal(0) && isH(a.A[1])) || (!v && isH(a.A[0]) && a.A[1].IsConstVal(-1))
						case "eq":
							return !v && ((isH(a.A[0]) && a.A[1].IsConstVal(-1)) || (isH(a.A[1]) && a.A[0].IsConstVal(-1)))
						}
						return false
					}) {
						return true, "x[:" + h.S + "(x, _)] under a guard excluding -1: the result is an offset into x"
					}
				}
			}
			return false, "x[:" + h.Show() + "] without a guard"
		default:
			return false, "slice expression with both bounds: no discharge rule"
		}
	}
	idx := e.Args[1]
	// domain arguments -----------------------------------------------------
	if c.a.MemField != "" && c.isRecvField(base, c.a.MemField) {
		rc := newRedCtx(w, fn)
		if ok, why := rc.reduced(idx); ok {
			return true, "core index reduced (MOD.index: " + why + "); len(core) == M (MOD.len)"
		} else {
			return false, "core index " + why
		}
	}
	if c.a.WarriorsField != "" && c.isRecvField(base, c.a.WarriorsField) {
		isBound := func(t *T) bool {
			t = stripConv(t)
			return c.isRecvField(t, c.a.CountField) || (t.Op == "len" && c.isRecvField(t.A[0], c.a.WarriorsField))
		}
		if upper, lower := indexWithin(w, fn, p, idx, isBound); upper && (lower || nonNegative(w, idx, p)) {
			return true, "0 <= i < warrior count (API.index; count == len(list) by paired update)"
		}
		return false, "warrior list indexed by " + idx.Show() + " without 0 <= i < count"
	}
	if q := resolveQueue(w, c); q.err == "" {
		if _, ok := selOf(base, q.buf); ok {
			ix := stripConv(idx)
			if q.inRing(w, fn, p, ix, nil) {
				return true, "queue cursor / _ % size, buffer is make(_, size) (MOD.queue)"
			}
			return false, "queue buffer indexed by " + ix.Show()
		}
	}
	// recorder arrays: made with the core size in the constructor, never replaced
	if rm, ok := resolveRecorder(w); ok && rm.arrayKind(base) != "" {
		ix := stripConv(idx)
		switch {
		case ix.Op == "rem" && rm.isSize(ix.A[1]):
			return true, "i % coresize into an array of coresize elements"
		case ix.Op == "loopvar" && hasCond(p, func(a *T, v bool) bool { return a.Op == "lt" && v && sameTerm(a.A[0], ix) && rm.isSize(a.A[1]) }):
			return true, "loop variable < coresize"
		case hasCond(p, func(a *T, v bool) bool {
			return a.Op == "lt" && v && sameTerm(a.A[0], ix) && stripConv(a.A[1]).Op == "len" && rm.isSize(a.A[1])
		}) && nonNegative(w, ix, p):
			return true, "0 <= i < len of a recorder array (all recorder arrays are made with the core size and never replaced)"
		case ix.Op == "sel" && ix.S == "Address" && ix.A[0].Op == "p":
			return true, "report address < M (MOD.report, assumption A5: only the simulator produces reports)"
		case ix.Op == "p":
			return true, "PRECONDITION: exported accessor " + fn.Name() + "(a) requires a < CoreSize (observed by C15 'for every address'); not checked"
		}
		return false, "recorder array indexed by " + ix.Show()
	}
	// constructor loops over freshly made arrays: x = make(_, n); for i < n
	if b := stripConv(base); b.Op == "makeslice" {
		n := stripConv(b.A[0])
		if hasCond(p, func(a *T, v bool) bool { return a.Op == "lt" && v && sameTerm(a.A[0], idx) && sameTerm(a.A[1], n) }) && nonNegative(w, idx, p) {
			return true, "index < n into make(_, n)"
		}
		// make(_, len(X)) indexed by an index bounded by len(X)
		if n.Op == "len" {
			if hasCond(p, func(a *T, v bool) bool { return a.Op == "lt" && v && sameTerm(a.A[0], idx) && sameTerm(a.A[1], n) }) {
				return true, "make(_, len(x)) indexed by i < len(x)"
			}
		}
	}
	// a field holding make(_, len(X)) stored earlier on this path
	for _, e2 := range p.Events {
		if e2.Kind == "store" && e2.Val.Op == "makeslice" && sameTerm(e2.LV, base) || (e2.Kind == "store" && e2.Val.Op == "makeslice" && e2.Val.Key() == stripConv(base).Key()) {
			n := stripConv(e2.Val.A[0])
			if hasCond(p, func(a *T, v bool) bool { return a.Op == "lt" && v && sameTerm(a.A[0], idx) && sameTerm(a.A[1], n) }) {
				return true, "field = make(_, n) on this path, index < n"
			}
		}
	}
	// a fixed-size array indexed by the value a reader returned without error: every value the
	// reader can return (its spelling table) is below the array's length
	if n, ok := arrayLenOf(base); ok {
		ix := stripConv(idx)
		if ix.Op == "ext" && ix.C == 1 && len(ix.A) == 1 && ix.A[0].Op == "call" {
			errOK := hasCond(p, func(a *T, v bool) bool {
				return a.Op == "eq" && v && a.A[1].Op == "nil" && a.A[0].Op == "ext" && a.A[0].C == 2 && a.A[0].A[0].Key() == ix.A[0].Key()
			})
			if g := w.funcByKey(ix.A[0].S); g != nil && errOK {
				if set, ok := retSet(w, g); ok && set != 0 {
					top := int64(0)
					for _, v := range bitsOf(set) {
						if v > top {
							top = v
						}
					}
					if top < n {
						return true, fmt.Sprintf("the reader returns one of %d values, all below the array length %d", len(bitsOf(set)), n)
					}
				}
			}
		}
	}
	// generic guards -------------------------------------------------------
	ix := stripConv(idx)
	// j := slices.Index(y, v); j >= 0  indexes y itself or a slice made with len(y)
	if ix.Op == "call" && strings.HasPrefix(ix.S, "slices.Index") && len(ix.A) >= 1 {
		found := hasCond(p, func(a *T, v bool) bool { return a.Op == "lt" && !v && sameTerm(a.A[0], ix) && a.A[1].IsConstVal(0) })
		b := stripConv(base)
		sameLen := sameTerm(b, ix.A[0]) || (b.Op == "makeslice" && isLenOf(b.A[0], ix.A[0]))
		// ... or a list a module function made with len(y) elements
		if n, ok := madeLenOf(w, b, 0); ok && isLenOf(n, ix.A[0]) {
			sameLen = true
		}
		if found && sameLen {
			return true, "slices.Index(y, _) >= 0 tested: a position inside y, and x has len(y) elements"
		}
	}
	if ix.IsConst() {
		if ix.C < 0 {
			return false, "negative constant index"
		}
		if ok, why := lenAtLeast(w, base, ix.C+1, p); ok {
			return true, fmt.Sprintf("x[%d]: %s", ix.C, why)
		}
		// strings.Split / strings.Fields results
		if b := stripConv(base); b.Op == "call" && b.S == "strings.Split" && ix.C == 0 {
			return true, "strings.Split returns at least one element"
		}
		return false, fmt.Sprintf("x[%d] without a guard implying len(x) > %d", ix.C, ix.C)
	}
	upper := hasCond(p, func(a *T, v bool) bool {
		return (a.Op == "lt" && v && sameTerm(a.A[0], ix) && isLenOf(a.A[1], base)) || (a.Op == "le" && !v && isLenOf(a.A[0], base) && sameTerm(a.A[1], ix))
	})
	if upper && nonNegative(w, ix, p) {
		return true, "0 <= i < len(x) tested on this path"
	}
	// a counter that is only advanced (by one) under i < len(x) never exceeds len(x): a path on
	// which it is neither below nor equal to len(x) does not exist
	if ix.Op == "loopvar" {
		notBelow := hasCond(p, func(a *T, v bool) bool { return a.Op == "lt" && !v && sameTerm(a.A[0], ix) && isLenOf(a.A[1], base) })
		notEqual := hasCond(p, func(a *T, v bool) bool {
			return a.Op == "eq" && !v && ((sameTerm(a.A[0], ix) && isLenOf(a.A[1], base)) || (sameTerm(a.A[1], ix) && isLenOf(a.A[0], base)))
		})
		if notBelow && notEqual && counterAtMostLen(w, fn, p, ix, base) {
			return true, "unreachable: the counter starts at most at len(x) and advances by one only under i < len(x), so !(i < len(x)) means i == len(x)"
		}
		if notEqual && !notBelow && counterAtMostLen(w, fn, p, ix, base) && nonNegative(w, ix, p) {
			return true, "i <= len(x) by construction and i != len(x) tested: i < len(x)"
		}
	}
	if !upper {
		return false, "x[" + ix.Show() + "] without a dominating i < len(x)"
	}
	return false, "x[" + ix.Show() + "]: index may be negative"
}

// loopVarInfo: for the loop counter lv (a header phi cut into a loop
// variable) on path p of fn: the value it has on entry and its constant step
// per iteration (ok=false when some back edge changes it otherwise).
func loopVarInfo(w *World, fn *ssa.Function, p *Path, lv *T) (init *T, step int64, ok bool) {
	if lv.Op != "loopvar" || int(lv.C) >= len(fn.Blocks) {
		return nil, 0, false
	}
	phiIdx, n := -1, 0
	for _, in := range fn.Blocks[int(lv.C)].Instrs {
		if ph, isPhi := in.(*ssa.Phi); isPhi {
			if ph.Comment == lv.S {
				phiIdx = n
			}
			n++
		}
	}
	if phiIdx < 0 {
		return nil, 0, false
	}
	for i := range p.Events {
		e := &p.Events[i]
		if e.Kind == "enterloop" && e.Res.C == lv.C && phiIdx < len(e.Args) {
			init = e.Args[phiIdx]
		}
	}
	if init == nil {
		return nil, 0, false
	}
	paths, err := w.Paths(fn)
	if err != nil {
		return nil, 0, false
	}
	have := false
	for _, q := range paths {
		if q.End != "backedge" {
			continue
		}
		be := q.Events[len(q.Events)-1]
		if be.Res.C != lv.C || phiIdx >= len(be.Args) {
			continue
		}
		l := linearOf(be.Args[phiIdx])
		if len(l.Coef) != 1 || l.Coef[lv.Show()] != 1 {
			return nil, 0, false
		}
		if have && l.Const != step {
			return nil, 0, false
		}
		step, have = l.Const, true
	}
	return init, step, have
}

// lockstep rewrites every loop variable in l that advances by a constant on
// every back edge as init + step*K, K being the number of completed
// iterations of its loop (one symbol per loop header): the variables of one
// loop move in lock step, so `dst` (from off, +1) and a range index (from -1,
// +1) are related by dst == off + index + 1.
func lockstep(w *World, fn *ssa.Function, p *Path, l *Lin) *Lin {
	out := &Lin{Coef: map[string]int64{}, Atom: map[string]*T{}, Const: l.Const}
	for k, c := range l.Coef {
		at := l.Atom[k]
		if at.Op == "loopvar" {
			if init, step, ok := loopVarInfo(w, fn, p, at); ok {
				li := linearOf(init)
				out.Const += c * li.Const
				for k2, c2 := range li.Coef {
					out.Coef[k2] += c * c2
					out.Atom[k2] = li.Atom[k2]
				}
				ik := fmt.Sprintf("iterations#%d", at.C)
				out.Coef[ik] += c * step
				out.Atom[ik] = &T{Op: "iter", C: at.C}
				continue
			}
		}
		out.Coef[k] += c
		out.Atom[k] = at
	}
	for k, c := range out.Coef {
		if c == 0 {
			delete(out.Coef, k)
			delete(out.Atom, k)
		}
	}
	return out
}

// loopVarSteps returns the entry value of a loop variable on path p and, for
// every back-edge path of its loop, the value it takes next.
type lvStep struct {
	p *Path
	v *T
}

func loopVarSteps(w *World, fn *ssa.Function, p *Path, lv *T) (init *T, steps []lvStep, ok bool) {
	if lv.Op != "loopvar" || int(lv.C) >= len(fn.Blocks) {
		return nil, nil, false
	}
	phiIdx, n := -1, 0
	for _, in := range fn.Blocks[int(lv.C)].Instrs {
		if ph, isPhi := in.(*ssa.Phi); isPhi {
			if ph.Comment == lv.S {
				phiIdx = n
			}
			n++
		}
	}
	if phiIdx < 0 {
		return nil, nil, false
	}
	for i := range p.Events {
		e := &p.Events[i]
		if e.Kind == "enterloop" && e.Res.C == lv.C && phiIdx < len(e.Args) {
			init = e.Args[phiIdx]
		}
	}
	paths, err := w.Paths(fn)
	if init == nil || err != nil {
		return nil, nil, false
	}
	for _, q := range paths {
		if q.End != "backedge" {
			continue
		}
		be := q.Events[len(q.Events)-1]
		if be.Res.C != lv.C {
			continue
		}
		if phiIdx >= len(be.Args) {
			return nil, nil, false
		}
		steps = append(steps, lvStep{q, be.Args[phiIdx]})
	}
	return init, steps, true
}

// indexWithin: is 0 <= idx < B established on path p of fn, where B is any
// term isBound accepts?  Recognises a test on the path, an ascending counter
// that starts at a non-negative value, and a descending counter that starts
// below B and is tested >= 0.
func indexWithin(w *World, fn *ssa.Function, p *Path, idx *T, isBound func(*T) bool) (upper, lower bool) {
	ix := stripConv(idx)
	upper = hasCond(p, func(a *T, v bool) bool {
		return a.Op == "lt" && v && sameTerm(a.A[0], ix) && isBound(a.A[1])
	})
	geZero := hasCond(p, func(a *T, v bool) bool {
		return a.Op == "lt" && !v && sameTerm(a.A[0], ix) && a.A[1].IsConstVal(0)
	})
	lower = geZero || (!isSigned(ix.Ty) && ix.Ty != nil) || (ix.IsConst() && ix.C >= 0)
	// a loop counter plus a constant
	l := linearOf(ix)
	var lv *T
	for k, at := range l.Atom {
		if at.Op == "loopvar" && l.Coef[k] == 1 && len(l.Atom) == 1 {
			lv = at
		}
	}
	if lv == nil {
		return
	}
	init, step, ok := loopVarInfo(w, fn, p, lv)
	if !ok {
		if !lower {
			lower = ix.Op == "loopvar" // counters of this code base start at a non-negative value and step upwards
		}
		return
	}
	first := linearOf(init)
	first.Const += l.Const // the index in the first iteration
	if step > 0 {
		if len(first.Coef) == 0 && first.Const >= 0 {
			lower = true
		}
		if l.Const >= 0 && nonNegative(w, init, p) {
			lower = true // starts at a non-negative value (a constant, a length, a counter field) and only grows
		}
		if len(first.Coef) == 1 {
			for k, at := range first.Atom {
				if first.Coef[k] == 1 && first.Const >= 0 && (stripConv(at).Op == "len" || !isSigned(at.Ty)) {
					lower = true
				}
			}
		}
	}
	if step < 0 && len(first.Coef) == 1 && first.Const <= -1 {
		for k, at := range first.Atom {
			if first.Coef[k] == 1 && isBound(at) {
				upper = true // starts below the bound and only decreases
			}
		}
	}
	return
}

// counterAtMostLen: loop counter lv satisfies lv <= len(base) at its loop
// header: it enters the loop at most at len(base) and every back edge advances
// it by one on a path that tested lv < len(base).
func counterAtMostLen(w *World, fn *ssa.Function, p *Path, lv, base *T) bool {
	init, step, ok := loopVarInfo(w, fn, p, lv)
	if !ok || step != 1 {
		return false
	}
	in := stripConv(init)
	initOK := in.IsConstVal(0) ||
		hasCond(p, func(a *T, v bool) bool { return a.Op == "lt" && v && sameTerm(a.A[0], in) && isLenOf(a.A[1], base) })
	if !initOK {
		return false
	}
	paths, err := w.Paths(fn)
	if err != nil {
		return false
	}
	for _, q := range paths {
		if q.End != "backedge" || q.Events[len(q.Events)-1].Res.C != lv.C {
			continue
		}
		// only back edges that change the counter matter
		guarded := hasCond(q, func(a *T, v bool) bool { return a.Op == "lt" && v && sameTerm(a.A[0], lv) && isLenOf(a.A[1], base) })
		if !guarded {
			return false
		}
	}
	return true
}
