package main

// Per-opcode helpers: TAB.flow, TAB.arith, TAB.dispatch, TASK.term, MOD.div,
// SPL.order.  Each helper path (one modifier, one outcome of the
// data-dependent tests) is compared with the ICWS'94 table in spec.go.

import (
	"fmt"
	"sort"
	"strings"

	"golang.org/x/tools/go/ssa"
)

type helperView struct {
	ea     *execAnalysis
	c      *simCtx
	fn     *ssa.Function
	role   map[string]string // param name -> role
	irName string
	paths  []*Path
}

func newHelperView(ea *execAnalysis, h *ssa.Function) (*helperView, string) {
	roles, ok := ea.roles[h]
	if !ok {
		return nil, "helper is never called from the executor"
	}
	hv := &helperView{ea: ea, c: ea.v.c, fn: h, role: map[string]string{}}
	for i, p := range h.Params {
		if i < len(roles) {
			hv.role[p.Name()] = roles[i]
			if roles[i] == "IR" {
				hv.irName = p.Name()
			}
		}
	}
	paths, err := ea.v.c.w.Paths(h)
	if err != nil {
		return nil, err.Error()
	}
	for _, p := range paths {
		if p.End != "ret" {
			return nil, fmt.Sprintf("helper path ends in %s (loops/panics in a per-opcode helper are not analysable)", p.End)
		}
	}
	hv.paths = paths
	return hv, ""
}

func rewrite(t *T, f func(*T) *T) *T {
	if t == nil {
		return nil
	}
	if n := f(t); n != nil {
		return n
	}
	changed := false
	args := make([]*T, len(t.A))
	for i, a := range t.A {
		args[i] = rewrite(a, f)
		if args[i] != a {
			changed = true
		}
	}
	if !changed && t.E == 0 {
		return t
	}
	n := *t
	n.A = args
	n.E = 0
	n.k = ""
	return &n
}

// normT rewrites a helper term into role vocabulary: parameters by role, the
// modulus as M, core cells as cell(<addr>).
func (hv *helperView) normT(t *T) *T {
	c := hv.c
	return rewrite(stripConvDeep(t), func(x *T) *T {
		if x.Op == "p" {
			if ro, ok := hv.role[x.S]; ok {
				return &T{Op: "p", S: ro}
			}
		}
		if c.isM(x) {
			return &T{Op: "p", S: "M"}
		}
		if idx, f, ok := c.cell(x); ok {
			base := &T{Op: "cell", A: []*T{hv.normT(idx)}}
			if f == "" {
				return base
			}
			return &T{Op: "sel", S: f, A: []*T{base}}
		}
		return nil
	})
}

func stripConvDeep(t *T) *T {
	return rewrite(t, func(x *T) *T {
		if x.Op == "conv" {
			return stripConvDeep(x.A[0])
		}
		return nil
	})
}

func (hv *helperView) norm(t *T) string {
	n := hv.normT(t)
	// re-canonicalise commutative nodes after renaming
	n = recanon(n)
	return n.Key()
}

func recanon(t *T) *T {
	if t == nil || len(t.A) == 0 {
		return t
	}
	args := make([]*T, len(t.A))
	for i, a := range t.A {
		args[i] = recanon(a)
	}
	n := *t
	n.A = args
	n.k = ""
	switch t.Op {
	case "add", "mul":
		sort.Slice(n.A, func(i, j int) bool { return n.A[i].Key() < n.A[j].Key() })
	case "eq":
		if !n.A[1].IsConst() && n.A[0].Key() > n.A[1].Key() {
			n.A[0], n.A[1] = n.A[1], n.A[0]
		}
	}
	return &n
}

// modifier of a helper path (singleton value set on IR.OpMode).
func (hv *helperView) modOf(p *Path) (int64, bool) {
	for k, set := range p.Sets {
		t := p.SetTerms[k]
		if t.Op == "sel" && t.S == "OpMode" && t.A[0].Op == "p" && t.A[0].S == hv.irName {
			bs := bitsOf(set)
			if len(bs) == 1 {
				return bs[0], true
			}
		}
	}
	return 0, false
}

// dataConds: the non-enum conditions of a path, normalised, with polarity.
func (hv *helperView) dataConds(p *Path) map[string]bool {
	out := map[string]bool{}
	for _, cd := range p.Conds {
		if cd.Atom.Op == "eq" && cd.Atom.A[1].IsConst() {
			if _, isEnum := hv.c.w.enumDomain(cd.Atom.A[0].Ty); isEnum {
				continue
			}
		}
		// range / membership tests on a value of an enumerated type select the modifier, they are not data tests
		if (cd.Atom.Op == "lt" || cd.Atom.Op == "in") && len(cd.Atom.A) >= 2 {
			x := stripConv(cd.Atom.A[0])
			if cd.Atom.Op == "lt" && cd.Atom.A[0].IsConst() {
				x = stripConv(cd.Atom.A[1])
			}
			if _, isEnum := hv.c.w.enumDomain(x.Ty); isEnum && (cd.Atom.Op == "in" || cd.Atom.A[0].IsConst() || cd.Atom.A[1].IsConst()) {
				continue
			}
		}
		out[hv.norm(cd.Atom)] = cd.Val
	}
	return out
}

func (hv *helperView) pathLabel(p *Path) string {
	m, ok := hv.modOf(p)
	ms := "?"
	if ok {
		ms = hv.c.w.EnumConstName(hv.c.w.NamedType("OpMode"), m)
	}
	dc := hv.dataConds(p)
	var ks []string
	for k, v := range dc {
		if v {
			ks = append(ks, k)
		} else {
			ks = append(ks, "!"+k)
		}
	}
	sort.Strings(ks)
	if len(ks) > 0 {
		return ms + "/" + strings.Join(ks, "&")
	}
	return ms
}

func init() {
	register(&Rule{Name: "TAB.dispatch", Min: 17, Doc: "every opcode reaches a handler; every helper covers all seven modifiers", Run: ruleTabDispatch})
	register(&Rule{Name: "TAB.flow", Min: 150, Doc: "modifier -> source/destination fields, tested fields, comparison structure == ICWS'94 table", Run: ruleTabFlow})
	register(&Rule{Name: "TASK.term", Min: 1000, Doc: "each executed task either queues its successor(s) or reports task termination, never both/neither", Run: ruleTaskTerm})
	register(&Rule{Name: "MOD.div", Min: 8, Doc: "every data-dependent divisor is tested non-zero on the path that divides", Run: ruleModDiv})
	register(&Rule{Name: "SPL.order", Min: 64, Doc: "SPL queues PC+1 before the split target", Run: ruleSplOrder})
}

func ruleTabDispatch(w *World, r *RuleResult) {
	ea := analyseExec(w)
	if !execGuard(r, ea) {
		return
	}
	c := ea.v.c
	// every opcode value has at least one executor path, and that path does something
	byOp := map[int64]int{}
	for _, info := range ea.infos {
		n := 0
		for i := range info.p.Events {
			e := &info.p.Events[i]
			if c.isPush(e) || (e.Kind == "call" && c.isHelper(e.Callee)) {
				n++
			}
			if rep, ok := c.reportOf(e); ok && rep.TypeOK && rep.Type == c.rt["WarriorTaskTerminate"] {
				n++
			}
		}
		if n > 0 {
			byOp[info.op]++
		}
	}
	for name, v := range c.oc {
		r.check(byOp[v] == 64, "op/"+name, w.Pos(ea.v.fn.Pos()), "handled on all 64 mode pairs", fmt.Sprintf("opcode %s has a handler on %d of 64 addressing-mode pairs", name, byOp[v]))
	}
	for _, h := range c.a.Helpers {
		hv, err := newHelperView(ea, h)
		if err != "" {
			r.undecided(h.Name(), w.Pos(h.Pos()), err)
			continue
		}
		seen := map[int64]bool{}
		for _, p := range hv.paths {
			if m, ok := hv.modOf(p); ok {
				seen[m] = true
			} else {
				r.bad(h.Name()+"/unsplit", w.Pos(h.Pos()), "a helper path is not specialised to one modifier")
			}
		}
		for name, v := range c.om {
			r.check(seen[v], h.Name()+"/"+name, w.Pos(h.Pos()), "modifier handled", "helper "+h.Name()+" has no path for modifier "+name)
		}
	}
}

// pathSummary: what a helper path does, in role vocabulary.
type pathSummary struct {
	stores  []storeSum
	pushes  []string
	terms   int
	reports []string
	conds   map[string]bool
}
type storeSum struct {
	addr, field string
	val         *T
	e           *Event
}

func (hv *helperView) summarize(p *Path) pathSummary {
	c := hv.c
	s := pathSummary{conds: hv.dataConds(p)}
	for i := range p.Events {
		e := &p.Events[i]
		switch {
		case e.Kind == "store":
			if idx, f, ok := c.cell(e.LV); ok {
				s.stores = append(s.stores, storeSum{addr: hv.norm(idx), field: f, val: e.Val, e: e})
			}
		case c.isPush(e):
			s.pushes = append(s.pushes, hv.norm(e.Args[1]))
		default:
			if rep, ok := c.reportOf(e); ok {
				if rep.TypeOK && rep.Type == c.rt["WarriorTaskTerminate"] {
					s.terms++
				}
			}
		}
	}
	return s
}

func ruleTabFlow(w *World, r *RuleResult) {
	ea := analyseExec(w)
	if !execGuard(r, ea) {
		return
	}
	c := ea.v.c
	opName := map[int64]string{}
	for n, v := range c.oc {
		opName[v] = n
	}
	modName := map[int64]string{}
	for n, v := range c.om {
		modName[v] = n
	}
	// direct opcodes handled in the executor without a helper are checked by TASK.term/FOLD.jump/SPL.order.
	for _, h := range c.a.Helpers {
		hv, err := newHelperView(ea, h)
		if err != "" {
			r.undecided(h.Name(), w.Pos(h.Pos()), err)
			continue
		}
		var ops []int64
		for o := range ea.opsOf[h] {
			ops = append(ops, o)
		}
		sort.Slice(ops, func(i, j int) bool { return ops[i] < ops[j] })
		for _, p := range hv.paths {
			m, ok := hv.modOf(p)
			if !ok {
				continue
			}
			sum := hv.summarize(p)
			for _, o := range ops {
				key := fmt.Sprintf("%s.%s/%s", opName[o], modName[m], strings.TrimPrefix(hv.pathLabel(p), modName[m]))
				key = strings.TrimSuffix(key, "/")
				pos := w.Pos(h.Pos())
				if len(p.Conds) > 0 {
					pos = w.Pos(p.Conds[len(p.Conds)-1].Pos)
				}
				if msg := checkStepSpec(hv, opName[o], modName[m], sum); msg != "" {
					if strings.HasPrefix(msg, "UNDECIDED:") {
						r.undecided(key, pos, msg)
					} else {
						r.bad(key, pos, msg)
					}
				} else {
					r.ok(key, pos, "matches ICWS'94 "+opName[o]+"."+modName[m])
				}
			}
		}
	}
}

func ruleTaskTerm(w *World, r *RuleResult) {
	ea := analyseExec(w)
	if !execGuard(r, ea) {
		return
	}
	c := ea.v.c
	// helper summaries: set of (pushes, terms) over paths
	type pt struct{ push, term int }
	hsum := map[*ssa.Function]map[pt]bool{}
	for _, h := range c.a.Helpers {
		hv, err := newHelperView(ea, h)
		if err != "" {
			r.undecided(h.Name(), w.Pos(h.Pos()), err)
			continue
		}
		hsum[h] = map[pt]bool{}
		for _, p := range hv.paths {
			s := hv.summarize(p)
			x := pt{len(s.pushes), s.terms}
			hsum[h][x] = true
			good := (x.push == 1 && x.term == 0) || (x.push == 0 && x.term == 1)
			r.check(good, h.Name()+"/"+hv.pathLabel(p), w.Pos(h.Pos()), fmt.Sprintf("pushes=%d terminate-reports=%d", x.push, x.term),
				fmt.Sprintf("helper path queues %d successors and reports %d task terminations; exactly one of (one push, one termination) is required", x.push, x.term))
		}
	}
	for _, info := range ea.infos {
		push, term, calls := 0, 0, 0
		for i := range info.p.Events {
			e := &info.p.Events[i]
			if c.isPush(e) {
				push++
			} else if e.Kind == "call" && c.isHelper(e.Callee) {
				calls++
			} else if rep, ok := c.reportOf(e); ok && rep.TypeOK && rep.Type == c.rt["WarriorTaskTerminate"] {
				term++
			}
		}
		opn := c.w.EnumConstName(c.w.NamedType("OpCode"), info.op)
		var good bool
		switch {
		case calls == 1:
			good = push == 0 && term == 0
		case opn == "DAT":
			good = push == 0 && term == 1 && calls == 0
		case opn == "SPL":
			good = push == 2 && term == 0 && calls == 0
		default:
			good = push == 1 && term == 0 && calls == 0
		}
		r.check(good, info.label, w.Pos(ea.v.fn.Pos()), fmt.Sprintf("pushes=%d terminations=%d helper-calls=%d", push, term, calls),
			fmt.Sprintf("executor path for %s: %d direct pushes, %d termination reports, %d helper calls", opn, push, term, calls))
	}
}

func ruleModDiv(w *World, r *RuleResult) {
	ea := analyseExec(w)
	if !execGuard(r, ea) {
		return
	}
	c := ea.v.c
	fns := append([]*ssa.Function{c.a.Exec}, c.a.Helpers...)
	for _, f := range fns {
		paths, err := w.Paths(f)
		if err != nil {
			r.undecided(f.Name(), w.Pos(f.Pos()), err.Error())
			continue
		}
		seen := map[string]bool{}
		for _, p := range paths {
			nz := map[string]bool{}
			for _, cd := range p.Conds {
				if cd.Atom.Op == "eq" && cd.Atom.A[1].IsConstVal(0) && !cd.Val {
					nz[cd.Atom.A[0].Show()] = true
				}
			}
			check := func(t *T, pos string) {
				t.walk(func(x *T) bool {
					if x.Op == "quo" || x.Op == "rem" {
						d := stripConv(x.A[1])
						if c.isM(d) || (d.IsConst() && d.C != 0) {
							return true
						}
						key := fmt.Sprintf("%s/%s", f.Name(), x.Show())
						if nz[d.Show()] {
							if !seen[key] {
								seen[key] = true
								r.ok(key, pos, "divisor "+d.Show()+" tested != 0 on this path")
							}
						} else {
							r.bad(key, pos, "divisor "+d.Show()+" is not tested non-zero on a path that divides by it")
						}
					}
					return true
				})
			}
			for i := range p.Events {
				e := &p.Events[i]
				if e.Kind == "store" {
					check(e.Val, c.posOf(e))
				}
				for _, a := range e.Args {
					check(a, c.posOf(e))
				}
			}
		}
	}
	// modulus and limits: Validate guards
	ruleModCfg(w, r)
}

func ruleSplOrder(w *World, r *RuleResult) {
	ea := analyseExec(w)
	if !execGuard(r, ea) {
		return
	}
	c := ea.v.c
	for _, info := range ea.infos {
		if c.w.EnumConstName(c.w.NamedType("OpCode"), info.op) != "SPL" {
			continue
		}
		var ks []string
		for i := range info.p.Events {
			e := &info.p.Events[i]
			if c.isPush(e) {
				if k, ok := ea.v.addrKind(e.Args[1]); ok {
					ks = append(ks, k.Class)
				} else {
					ks = append(ks, "?")
				}
			}
		}
		r.check(len(ks) == 2 && ks[0] == "NEXT" && ks[1] == "ADDR", info.label, w.Pos(ea.v.fn.Pos()), "PC+1 queued before the split target",
			fmt.Sprintf("SPL queues %v; ICWS'94 queues PC+1 first, then the A address", ks))
	}
}
