package main

import (
	"fmt"
	"os"
	"sort"
	"strings"

	"golang.org/x/tools/go/ssa"
)

func findFunc(w *World, name string) *ssa.Function {
	for _, f := range w.Funcs {
		if funcShort(f) == name || f.Name() == name {
			return f
		}
	}
	return nil
}

func dumpPaths(w *World, name string) {
	fn := findFunc(w, name)
	if fn == nil {
		fmt.Println("no function", name)
		return
	}
	paths, err := w.Paths(fn)
	fmt.Printf("%s: %d paths err=%v\n", fn, len(paths), err)
	for i, p := range paths {
		if i > 40 && os.Getenv("GMARSLINT_DUMPALL") == "" {
			fmt.Println("...")
			break
		}
		fmt.Printf("--- path %d start=%d end=%s blocks=%v\n", i, p.Start, p.End, p.Blocks)
		var ks []string
		for k := range p.Sets {
			ks = append(ks, k)
		}
		sort.Strings(ks)
		for _, k := range ks {
			fmt.Printf("   set %s = %b\n", k, p.Sets[k])
		}
		for _, c := range p.Conds {
			fmt.Printf("   cond %v %s\n", c.Val, c.Atom.Key())
		}
		for _, e := range p.Events {
			var args []string
			for _, a := range e.Args {
				args = append(args, a.Key())
			}
			cn := e.Method
			if e.Callee != nil {
				cn = funcShort(e.Callee)
			}
			switch e.Kind {
			case "store":
				fmt.Printf("   store %s := %s\n", e.LV.Key(), e.Val.Key())
			case "load":
				fmt.Printf("   load %s\n", e.LV.Key())
			default:
				fmt.Printf("   %s %s(%s)\n", e.Kind, cn, strings.Join(args, ", "))
			}
		}
	}
}
