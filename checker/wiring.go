package main

// E6/E7: effects and wiring rules for C14 (isolation), C16 (listing), C17 (CLI).

import (
	"fmt"
	"go/token"
	"go/types"
	"sort"
	"strings"

	"golang.org/x/tools/go/ssa"
)

func init() {
	register(&Rule{Name: "GLOBAL.ro", Min: 8, Doc: "no library function writes package-level state; no ambient nondeterminism imported", Run: ruleGlobalRO})
	register(&Rule{Name: "COPY.deep", Min: 5, Doc: "WarriorData.Copy shares nothing with its receiver; AddWarrior keeps only the copy; value types hold no references", Run: ruleCopyDeep})
	register(&Rule{Name: "MAP.order", Min: 3, Doc: "every range over a map only feeds order-insensitive results", Run: ruleMapOrder})
	register(&Rule{Name: "WIRE.listing", Min: 5, Doc: "listing: opcode, modifier (omitted in '88), A-mode, signed A, B-mode, signed B of the same instruction; START on index == Start; ORG/END decoration", Run: ruleWireListing})
	register(&Rule{Name: "WIRE.cli", Min: 10, Doc: "flags reach the configuration fields, placement and round count they name", Run: ruleWireCLI})
	register(&Rule{Name: "WIRE.tally", Min: 5, Doc: "each counter is incremented on exactly the truth-table row it names; printed as (win,tie) per warrior", Run: ruleWireTally})
}

func ruleGlobalRO(w *World, r *RuleResult) {
	// every package-level variable of the library: find writers
	type use struct {
		fn  *ssa.Function
		pos string
		how string
	}
	writers := map[string][]use{}
	var globals []string
	for name, m := range w.SLib.Members {
		if g, ok := m.(*ssa.Global); ok && !strings.HasPrefix(name, "init$") {
			globals = append(globals, g.Name())
		}
	}
	sort.Strings(globals)
	var rootGlobal func(v ssa.Value, depth int) *ssa.Global
	rootGlobal = func(v ssa.Value, depth int) *ssa.Global {
		if depth > 8 {
			return nil
		}
		switch x := v.(type) {
		case *ssa.Global:
			return x
		case *ssa.FieldAddr:
			return rootGlobal(x.X, depth+1)
		case *ssa.IndexAddr:
			return rootGlobal(x.X, depth+1)
		case *ssa.UnOp:
			return rootGlobal(x.X, depth+1) // loaded map / slice header: element writes reach the shared backing store
		case *ssa.Slice:
			return rootGlobal(x.X, depth+1)
		case *ssa.Field:
			return rootGlobal(x.X, depth+1)
		}
		return nil
	}
	// refOfGlobal: v is a reference (slice, map, pointer, channel) to storage a package-level
	// variable of the library owns: the loaded value of such a variable, or a slice of it
	var refOfGlobal func(v ssa.Value, depth int) *ssa.Global
	refOfGlobal = func(v ssa.Value, depth int) *ssa.Global {
		if depth > 4 {
			return nil
		}
		switch x := v.(type) {
		case *ssa.UnOp:
			if g, ok := x.X.(*ssa.Global); ok && x.Op == token.MUL && g.Pkg == w.SLib {
				switch g.Type().(*types.Pointer).Elem().Underlying().(type) {
				case *types.Slice, *types.Map, *types.Pointer, *types.Chan:
					return g
				}
			}
		case *ssa.Slice:
			if g, ok := x.X.(*ssa.Global); ok && g.Pkg == w.SLib {
				return g
			}
			return refOfGlobal(x.X, depth+1)
		case *ssa.ChangeType:
			return refOfGlobal(x.X, depth+1)
		}
		return nil
	}
	for _, fn := range libFuncs(w) {
		if fn.Name() == "init" && fn.Synthetic != "" {
			continue
		}
		for _, b := range fn.Blocks {
			for _, in := range b.Instrs {
				switch x := in.(type) {
				case *ssa.Return:
					for _, rv := range x.Results {
						if g := refOfGlobal(rv, 0); g != nil {
							writers[g.Name()] = append(writers[g.Name()], use{fn, w.Pos(instrPos(in)), "a reference to its storage is returned: the receiver can write through it"})
						}
					}
				}
				if ci, ok := in.(ssa.CallInstruction); ok {
					c := ci.Common()
					if bi, ok := c.Value.(*ssa.Builtin); ok && bi.Name() == "append" && len(c.Args) > 0 {
						if g := refOfGlobal(c.Args[0], 0); g != nil {
							writers[g.Name()] = append(writers[g.Name()], use{fn, w.Pos(instrPos(in)), "append to it: spare capacity of the shared array is written"})
						}
					}
				}
				switch x := in.(type) {
				case *ssa.Store:
					if g := refOfGlobal(x.Val, 0); g != nil {
						writers[g.Name()] = append(writers[g.Name()], use{fn, w.Pos(instrPos(in)), "a reference to its storage is stored elsewhere: every holder of that copy shares the array (an append within its capacity, or an element store, writes it)"})
					}
					if g := rootGlobal(x.Addr, 0); g != nil && g.Pkg == w.SLib {
						writers[g.Name()] = append(writers[g.Name()], use{fn, w.Pos(instrPos(in)), "store"})
					}
					if g, ok := x.Val.(*ssa.Global); ok && g.Pkg == w.SLib {
						writers[g.Name()] = append(writers[g.Name()], use{fn, w.Pos(instrPos(in)), "address escapes into a store"})
					}
				case *ssa.MapUpdate:
					if g := rootGlobal(x.Map, 0); g != nil && g.Pkg == w.SLib {
						writers[g.Name()] = append(writers[g.Name()], use{fn, w.Pos(instrPos(in)), "map update"})
					}
				case ssa.CallInstruction:
					c := x.Common()
					if bi, ok := c.Value.(*ssa.Builtin); ok && (bi.Name() == "delete" || bi.Name() == "copy" || bi.Name() == "clear") && len(c.Args) > 0 {
						if g := rootGlobal(c.Args[0], 0); g != nil && g.Pkg == w.SLib {
							writers[g.Name()] = append(writers[g.Name()], use{fn, w.Pos(instrPos(in)), bi.Name()})
						}
					}
					for _, a := range c.Args {
						if g, ok := a.(*ssa.Global); ok && g.Pkg == w.SLib {
							writers[g.Name()] = append(writers[g.Name()], use{fn, w.Pos(instrPos(in)), "address passed to a call"})
						}
					}
				}
			}
		}
	}
	for _, g := range globals {
		if ws := writers[g]; len(ws) > 0 {
			for _, u := range ws {
				r.bad("global/"+g+"/"+u.fn.Name(), u.pos, fmt.Sprintf("package-level variable %s is written by %s (%s): assemblies/simulators running in other goroutines share it", g, u.fn.Name(), u.how))
			}
		} else {
			r.ok("global/"+g, "-", "no library function writes it")
		}
	}
	bad := map[string]string{"math/rand": "random numbers", "math/rand/v2": "random numbers", "time": "wall clock", "os": "process environment", "sync/atomic": "shared counters"}
	var imps []string
	for p := range w.Lib.Imports {
		imps = append(imps, p)
	}
	sort.Strings(imps)
	for _, p := range imps {
		if why, isBad := bad[p]; isBad {
			r.bad("import/"+p, "-", "the library imports "+p+" ("+why+"): results may differ between runs")
		}
	}
	r.ok("imports", "-", "library imports: "+strings.Join(imps, " "))
}

func hasRefs(t types.Type, seen map[types.Type]bool) bool {
	if seen[t] {
		return false
	}
	seen[t] = true
	switch u := t.Underlying().(type) {
	case *types.Pointer, *types.Slice, *types.Map, *types.Chan, *types.Signature, *types.Interface:
		return true
	case *types.Struct:
		for i := 0; i < u.NumFields(); i++ {
			if hasRefs(u.Field(i).Type(), seen) {
				return true
			}
		}
	case *types.Array:
		return hasRefs(u.Elem(), seen)
	}
	return false
}

func ruleCopyDeep(w *World, r *RuleResult) {
	for _, tn := range []string{"Instruction", "SimulatorConfig", "Report"} {
		nt := w.NamedType(tn)
		if nt == nil {
			r.undecided("type/"+tn, "-", "type not found")
			continue
		}
		r.check(!hasRefs(nt, map[types.Type]bool{}), "value-type/"+tn, w.Pos(nt.Obj().Pos()), "contains no pointer, slice, map, channel, function or interface", tn+" contains a reference-typed field: copies of it share state")
	}
	cp := w.Method("WarriorData", "Copy")
	if cp == nil {
		r.undecided("Copy", "-", "(*WarriorData).Copy not found")
		return
	}
	paths, err := w.Paths(cp)
	if err != nil {
		r.undecided("Copy", w.Pos(cp.Pos()), err.Error())
		return
	}
	wd := w.NamedType("WarriorData").Underlying().(*types.Struct)
	recv := cp.Params[0].Name()
	for _, p := range paths {
		if p.End != "ret" {
			continue
		}
		ret := p.Ret[0]
		r.check(ret.Op == "new", "Copy/fresh-object", w.Pos(cp.Pos()), "returns a newly allocated WarriorData", "Copy returns "+ret.Show()+", not a fresh object")
		stored := map[string]*T{}
		for _, e := range p.Events {
			if e.Kind == "store" && e.LV.Key() == ret.Key() {
				// the whole struct assigned at once (dup := *w): every field takes the source's field
				for i := 0; i < wd.NumFields(); i++ {
					f := wd.Field(i)
					stored[f.Name()] = mksel(e.Val, f.Name(), f.Type())
				}
			}
			if e.Kind == "store" && e.LV.Op == "sel" && e.LV.A[0].Key() == ret.Key() {
				stored[e.LV.S] = e.Val
			}
		}
		for i := 0; i < wd.NumFields(); i++ {
			f := wd.Field(i)
			v := stored[f.Name()]
			key := "Copy/field/" + f.Name()
			if !hasRefs(f.Type(), map[types.Type]bool{}) {
				good := v != nil && stripConv(v).Op == "sel" && stripConv(v).S == f.Name()
				r.check(good, key, w.Pos(cp.Pos()), "value field copied", "field "+f.Name()+" of the copy is not the receiver's "+f.Name())
				continue
			}
			if v == nil || v.Op != "makeslice" {
				vs := "left unset"
				if v != nil {
					vs = v.Show()
				}
				r.bad(key, w.Pos(cp.Pos()), "reference field "+f.Name()+" of the copy is "+vs+": the copy shares (or loses) the receiver's "+f.Name()+", so later changes by the caller or by the battle show through")
				continue
			}
			// copy(fresh, w.F) and len == len(w.F)
			copied := false
			for _, e := range p.Events {
				if e.Kind == "builtin" && e.Method == "copy" && len(e.Args) == 2 && e.Args[0].Key() == v.Key() {
					src := stripConv(e.Args[1])
					if src.Op == "sel" && src.S == f.Name() && src.A[0].Op == "deref" && src.A[0].A[0].Op == "p" && src.A[0].A[0].S == recv {
						copied = true
					}
				}
			}
			ln := stripConv(v.A[0])
			lenOK := ln.Op == "len" && stripConv(ln.A[0]).Op == "sel" && stripConv(ln.A[0]).S == f.Name()
			r.check(copied && lenOK, key, w.Pos(cp.Pos()), "fresh slice of the same length filled by copy()", "reference field "+f.Name()+" is a fresh slice but is not (make(len(src)) + copy(dst, src))")
		}
	}
	// AddWarrior keeps nothing of its parameter except through Copy
	c := newSimCtx(w)
	if c.a.SimT != nil {
		add := calleeOfMethod(w, c.a.SimT.Obj().Name(), "AddWarrior")
		if add != nil {
			ps, _ := w.Paths(add)
			var prm string
			for _, p := range add.Params {
				if typeName(p.Type()) == "*WarriorData" {
					prm = p.Name()
				}
			}
			d := newDedup(r)
			for _, p := range ps {
				for i := range p.Events {
					e := &p.Events[i]
					if e.Kind != "store" {
						continue
					}
					leaks := false
					viaCopy := false
					e.Val.walk(func(x *T) bool {
						if x.Op == "call" && x.S == fnKey(cp) {
							viaCopy = true
							return false
						}
						if x.Op == "p" && x.S == prm {
							leaks = true
						}
						return true
					})
					if typeName(e.LV.Ty) == "*WarriorData" || viaCopy || leaks {
						d.add(!leaks, add.Name()+"/store/"+e.LV.S, c.posOf(e), "stores only data.Copy()", "AddWarrior stores the caller's *WarriorData itself ("+e.Val.Show()+"): later changes to the caller's data change the simulator")
					}
					// writes through the parameter
					if e.LV.contains(func(x *T) bool { return x.Op == "p" && x.S == prm }) {
						d.add(false, add.Name()+"/write-through", c.posOf(e), "", "AddWarrior writes through the caller's *WarriorData")
					}
				}
			}
			d.flush()
		}
	}
	// exported query methods return fresh slices
	for _, nt := range []*types.Named{c.a.SimT, c.a.WarT} {
		if nt == nil {
			continue
		}
		ms := w.Prog.MethodSets.MethodSet(types.NewPointer(nt))
		for i := 0; i < ms.Len(); i++ {
			f := w.Prog.MethodValue(ms.At(i))
			if f == nil || f.Synthetic != "" || !f.Object().Exported() || f.Signature.Results().Len() == 0 {
				continue
			}
			if _, ok := f.Signature.Results().At(0).Type().Underlying().(*types.Slice); !ok {
				continue
			}
			good, why := returnsFresh(w, f, 0)
			r.check(good, nt.Obj().Name()+"."+f.Name()+"/fresh-result", w.Pos(f.Pos()), "returns a fresh slice", nt.Obj().Name()+"."+f.Name()+" returns "+why+": callers can modify simulator state through it")
		}
	}
}

func returnsFresh(w *World, f *ssa.Function, depth int) (bool, string) {
	paths, err := w.Paths(f)
	if err != nil || depth > 3 {
		return false, "?"
	}
	for _, p := range paths {
		if p.End != "ret" || len(p.Ret) == 0 {
			continue
		}
		v := stripConv(p.Ret[0])
		switch {
		case v.Op == "makeslice" || v.Op == "nil" || v.Op == "new":
		case v.Op == "slice" && (v.A[0].Op == "new" || v.A[0].Op == "makeslice"):
		case v.Op == "loopvar":
			// accumulated in a loop from a fresh slice: accept when every enterloop seeds it with a fresh value
		case v.Op == "call":
			var callee *ssa.Function
			for _, g := range libFuncs(w) {
				if fnKey(g) == v.S {
					callee = g
				}
			}
			if callee == nil {
				return false, v.Show()
			}
			if ok, why := returnsFresh(w, callee, depth+1); !ok {
				return false, why
			}
		default:
			return false, v.Show()
		}
	}
	return true, ""
}

func ruleMapOrder(w *World, r *RuleResult) {
	for _, fn := range libFuncs(w) {
		var ranges []*ssa.Range
		for _, b := range fn.Blocks {
			for _, in := range b.Instrs {
				if rg, ok := in.(*ssa.Range); ok {
					if _, isMap := rg.X.Type().Underlying().(*types.Map); isMap {
						ranges = append(ranges, rg)
					}
				}
			}
		}
		if len(ranges) == 0 {
			continue
		}
		paths, err := w.Paths(fn)
		if err != nil {
			r.undecided(fn.Name(), w.Pos(fn.Pos()), err.Error())
			continue
		}
		for ri, rg := range ranges {
			key := fmt.Sprintf("%s/range-map#%d", fn.Name(), ri+1)
			pos := w.Pos(instrPos(rg))
			// the loop header: the block containing the Next of this range
			hdr := -1
			for _, b := range fn.Blocks {
				for _, in := range b.Instrs {
					if nx, ok := in.(*ssa.Next); ok && nx.Iter == rg {
						hdr = b.Index
					}
				}
			}
			if hdr < 0 {
				r.undecided(key, pos, "loop header not found")
				continue
			}
			var problems []string
			class := map[string]bool{}
			for _, p := range paths {
				// locate the fragment of this path inside the loop
				start := -1
				for i, e := range p.Events {
					if e.Kind == "enterloop" && e.Res != nil && int(e.Res.C) == hdr {
						start = i
					}
				}
				if start < 0 {
					continue
				}
				// the key/value of this iteration
				isIter := func(t *T) bool {
					return t.contains(func(x *T) bool { return x.Op == "next" })
				}
				body := loopBody(fn, hdr)
				for i := start + 1; i < len(p.Events); i++ {
					e := &p.Events[i]
					if !body[e.Block] {
						continue
					}
					switch e.Kind {
					case "mapupdate":
						if isIter(e.Args[0]) && stripConv(e.Args[0]).Op == "ext" {
							class["keyed-store"] = true
						} else {
							problems = append(problems, "map element "+e.Args[0].Show()+" written inside the loop (not the loop key)")
						}
					case "store":
						root := e.LV
						for root.Op == "sel" || root.Op == "elem" {
							root = root.A[0]
						}
						if root.Op == "new" || root.Op == "makeslice" {
							continue // per-iteration fresh storage (varargs, literals)
						}
						problems = append(problems, "store to "+e.LV.Show()+" inside the loop")
					case "call":
						if e.Callee != nil {
							mods, unk := w.modSet(e.Callee)
							if e.Callee.Pkg == w.SLib && (len(mods) > 0 || unk) {
								// reviewed: memoised depth-first expansion writing resolved[<own key>] only
								if ok, why := memoisedByKey(w, e.Callee); ok {
									class["memoised-dfs"] = true
								} else {
									problems = append(problems, "calls "+e.Callee.Name()+", which has effects: "+why)
								}
							}
						}
					case "backedge":
						if e.Res != nil && int(e.Res.C) == hdr {
							// loop-carried values other than the iterator
							for _, a := range e.Args {
								if a.Op == "loopvar" || a.Op == "range" || a.IsConst() {
									continue
								}
								problems = append(problems, "loop-carried value "+a.Show()+" depends on iteration order")
							}
						}
					case "ret":
						class["existential"] = true
						for _, a := range e.Args {
							a = stripConv(a)
							if a.IsConst() || a.Op == "nil" || a.Op == "str" || a.Op == "zero" {
								continue
							}
							if a.Op == "call" && strings.HasPrefix(a.S, "fmt.") {
								continue // error text naming the offending key
							}
							if isIter(a) || a.Op == "ext" {
								continue // the witness key: callers use it only in messages (noted)
							}
						}
					case "send", "go":
						problems = append(problems, e.Kind+" inside a map range")
					}
				}
			}
			if len(problems) > 0 {
				sort.Strings(problems)
				r.undecided(key, pos, "iteration over a map with an order-dependent effect: "+problems[0])
			} else {
				var cs []string
				for k := range class {
					cs = append(cs, k)
				}
				sort.Strings(cs)
				if len(cs) == 0 {
					cs = []string{"no effect"}
				}
				r.ok(key, pos, "order-insensitive: "+strings.Join(cs, ", "))
			}
		}
	}
}

// memoisedByKey: the callee's only map stores are m[<its own key parameter>] = ... .
func memoisedByKey(w *World, fn *ssa.Function) (bool, string) {
	paths, err := w.Paths(fn)
	if err != nil {
		return false, err.Error()
	}
	var keyParam string
	for _, p := range fn.Params {
		if b, ok := p.Type().Underlying().(*types.Basic); ok && b.Info()&types.IsString != 0 {
			keyParam = p.Name()
			break
		}
	}
	if keyParam == "" {
		return false, "no key parameter"
	}
	for _, p := range paths {
		for _, e := range p.Events {
			switch e.Kind {
			case "mapupdate":
				k := stripConv(e.Args[0])
				if !(k.Op == "p" && k.S == keyParam) {
					return false, "writes map element " + k.Show()
				}
			case "store":
				root := e.LV
				for root.Op == "sel" || root.Op == "elem" {
					root = root.A[0]
				}
				if root.Op != "new" && root.Op != "makeslice" {
					return false, "stores to " + e.LV.Show()
				}
			case "call":
				if e.Callee != nil && e.Callee != fn && e.Callee.Pkg == w.SLib {
					if m, unk := w.modSet(e.Callee); len(m) > 0 || unk {
						if !freshOnly(w, e.Callee, map[*ssa.Function]bool{fn: true}) {
							return false, "calls " + e.Callee.Name()
						}
					}
				}
			}
		}
	}
	return true, ""
}

// ---------------------------------------------------------------- WIRE.listing

func ruleWireListing(w *World, r *RuleResult) {
	c := newSimCtx(w)
	if c.a.WarT == nil {
		r.undecided("anchors", "-", "warrior type unresolved")
		return
	}
	fn := w.Method(c.a.WarT.Obj().Name(), "LoadCode")
	if fn == nil {
		r.undecided("LoadCode", "-", "not found")
		return
	}
	paths, err := w.Paths(fn)
	if err != nil {
		r.undecided("LoadCode", w.Pos(fn.Pos()), err.Error())
		return
	}
	d := newDedup(r)
	pos := w.Pos(fn.Pos())
	legacyOf := func(p *Path) (bool, bool) {
		for _, cd := range p.Conds {
			a := stripConv(cd.Atom)
			if a.Op == "sel" && strings.Contains(typeName(a.A[0].Ty), c.a.SimT.Obj().Name()) {
				return cd.Val, true
			}
		}
		if hasCond(p, func(a *T, v bool) bool { return a.Op == "eq" && v && a.A[1].Op == "nil" }) {
			return false, true // no simulator: '94 layout
		}
		return false, false
	}
	signedFn := map[string]bool{}
	nLines := 0
	// every iteration over the code formats its line from the instruction at that index (a line
	// taken from somewhere else — a cache keyed by the instruction, say — carries another line's label)
	for _, p := range paths {
		if p.End != "backedge" {
			continue
		}
		overCode, formats := false, false
		for i := range p.Events {
			e := &p.Events[i]
			if (e.Kind == "index" || e.Kind == "load") && len(e.Args) > 0 && isCodeList(w, fn, e.Args[0], 0) {
				overCode = true
			}
			if e.Kind == "load" && e.LV != nil && e.LV.Op == "elem" && isCodeList(w, fn, e.LV.A[0], 0) {
				overCode = true
			}
			if e.Kind == "call" && e.Callee != nil && (fnKey(e.Callee) == "fmt.Sprintf" || fnKey(e.Callee) == "fmt.Fprintf") {
				formats = true
			}
		}
		if overCode {
			d.add(formats, "line/formatted-here", pos, "every iteration over the code formats its own line", "an iteration over the warrior's code emits a line without formatting it from the instruction at that index (a remembered line is reused): the START label and the operands of another line are printed")
		}
	}
	for _, p := range paths {
		legacy, known := legacyOf(p)
		for i := range p.Events {
			e := &p.Events[i]
			if e.Kind != "call" || e.Callee == nil {
				continue
			}
			var va *T // the values formatted into one listing line
			switch {
			case fnKey(e.Callee) == "fmt.Sprintf" && len(e.Args) == 2:
				va = e.Args[1]
			case fnKey(e.Callee) == "fmt.Fprintf" && len(e.Args) == 3 && e.Args[0].Op == "iface" && isTextBuilder(e.Args[0].A[0].Ty):
				va = e.Args[2] // formatted straight into the text being built
			default:
				continue
			}
			els := elementsOf(p, va)
			if len(els) != 7 {
				d.add(false, "line/arity", c.posOf(e), "", fmt.Sprintf("a listing line is formatted from %d values; expected label, opcode, modifier, A-mode, A, B-mode, B", len(els)))
				continue
			}
			nLines++
			get := func(i int) *T {
				x := els[fmt.Sprintf("[%d]", i)]
				if x == nil {
					return &T{Op: "none"}
				}
				x = stripConv(x)
				if x.Op == "iface" {
					x = stripConv(x.A[0])
				}
				return x
			}
			// the instruction: the cell whose Op is printed
			opT := get(1)
			if opT.Op != "sel" || opT.S != "Op" {
				d.add(false, "line/opcode", c.posOf(e), "", "second value of a listing line is "+opT.Show()+", not the instruction's opcode")
				continue
			}
			inst := opT.A[0]
			fld := func(t *T, f string) bool { return t.Op == "sel" && t.S == f && t.A[0].Key() == inst.Key() }
			signed := func(t *T, f string) bool {
				if t.Op == "call" && len(t.A) == 2 && fld(stripConv(t.A[1]), f) {
					signedFn[t.S] = true
					return true
				}
				// the rendering expanded in place: field, or field - M
				l := linearOf(t)
				if l == nil || l.Const != 0 {
					return false
				}
				nf, nm := int64(0), int64(0)
				for k, cf := range l.Coef {
					a := stripConv(l.Atom[k])
					switch {
					case fld(a, f):
						nf += cf
					case a.Op == "sel" && a.S == c.a.MField, a.Op == "call" && strings.HasSuffix(a.S, ".CoreSize"):
						nm += cf
					default:
						return false
					}
				}
				if nf == 1 && (nm == 0 || nm == -1) {
					d.add(true, "signed/congruent", c.posOf(e), "prints the field or the field minus M (congruent to the field modulo M)", "")
					return true
				}
				return false
			}
			d.add(fld(get(3), "AMode") && signed(get(4), "A") && fld(get(5), "BMode") && signed(get(6), "B"), "line/operands", c.posOf(e), "A-mode, signed A, B-mode, signed B of the same instruction, in this order",
				fmt.Sprintf("operands of a listing line are (%s, %s, %s, %s); expected (inst.AMode, signed(inst.A), inst.BMode, signed(inst.B))", get(3).Show(), get(4).Show(), get(5).Show(), get(6).Show()))
			// modifier
			if known {
				m := get(2)
				if legacy {
					d.add(m.Op == "str" && m.S == "", "line/modifier-88", c.posOf(e), "no modifier printed in '88 mode", "a modifier is printed in '88 mode")
				} else {
					good := m.Op == "cat" && m.A[0].Op == "str" && m.A[0].S == "." && m.A[1].Op == "call" && strings.HasSuffix(m.A[1].S, "OpMode).String") && fld(stripConv(m.A[1].A[0]), "OpMode")
					d.add(good, "line/modifier-94", c.posOf(e), "'.' + modifier of the same instruction", "modifier column is "+m.Show()+", not '.'+inst.OpMode")
				}
			}
			// START label iff index == Start
			lbl := get(0)
			idx := inst
			for idx.Op == "sel" {
				idx = idx.A[0]
			}
			var it *T
			if idx.Op == "elem" {
				it = idx.A[1]
			}
			isStartEdge, tested := false, false
			for _, cd := range p.Conds {
				a := cd.Atom
				if a.Op == "eq" && it != nil && (a.A[0].Show() == it.Show() || a.A[1].Show() == it.Show()) {
					o := a.A[0]
					if a.A[0].Show() == it.Show() {
						o = a.A[1]
					}
					o = stripConv(o)
					if o.Op == "sel" && o.S == "Start" {
						tested, isStartEdge = true, cd.Val
					}
				}
			}
			if tested && lbl.Op == "str" {
				isLabel := strings.TrimSpace(lbl.S) == "START"
				d.add(isLabel == isStartEdge, "line/START-label", c.posOf(e), "START printed exactly on the line whose index equals Start", "the START label is "+map[bool]string{true: "printed", false: "missing"}[isLabel]+" on the index "+map[bool]string{true: "==", false: "!="}[isStartEdge]+" Start edge")
			} else {
				d.add(false, "line/START-label", c.posOf(e), "", "the label column is not decided by comparing the line index with the entry point")
			}
		}
		// decoration: header before the loop, trailer after it
		if known {
			for _, e := range p.Events {
				if e.Kind == "enterloop" && len(e.Args) > 0 {
					init := stripConv(e.Args[0])
					isOrg := func(x *T) bool {
						return x.Op == "str" && strings.Contains(x.S, "ORG") && strings.Contains(x.S, "START")
					}
					has := init.contains(isOrg)
					// the text may be accumulated in memory (a builder) instead of a loop-carried string
					for _, hv := range e.Heap {
						if hv.Ty != nil && typeName(hv.Ty) == "string" && hv.contains(isOrg) {
							has = true
						}
					}
					d.add(has == !legacy, "decoration/ORG", pos, "ORG START precedes the code exactly in '94 layout", "ORG START header is "+map[bool]string{true: "present", false: "absent"}[has]+" in "+map[bool]string{true: "'88", false: "'94"}[legacy]+" layout")
				}
			}
			if p.End == "ret" && len(p.Ret) == 1 && p.Ret[0].Op != "str" {
				has := p.Ret[0].contains(func(x *T) bool {
					return x.Op == "str" && strings.Contains(x.S, "END") && strings.Contains(x.S, "START")
				})
				d.add(has == legacy, "decoration/END", pos, "END START follows the code exactly in '88 layout", "END START trailer is "+map[bool]string{true: "present", false: "absent"}[has]+" in "+map[bool]string{true: "'88", false: "'94"}[legacy]+" layout")
			}
		}
	}
	if nLines == 0 {
		d.add(false, "line/none", pos, "", "no listing line is formatted")
	}
	// signed helper(s): every return is a or a - M
	for name := range signedFn {
		for _, f := range libRoots(w) {
			if fnKey(f) != name {
				continue
			}
			ps, _ := w.Paths(f)
			var aName string
			for _, prm := range f.Params {
				if typeName(prm.Type()) == "Address" {
					aName = prm.Name()
				}
			}
			for _, p := range ps {
				if p.End != "ret" || len(p.Ret) != 1 {
					continue
				}
				l := linearOf(p.Ret[0])
				good := l.Const == 0
				na, nm := int64(0), int64(0)
				for k, cf := range l.Coef {
					a := l.Atom[k]
					switch {
					case a.Op == "p" && a.S == aName:
						na = cf
					case c.isM(a) || (a.Op == "p" && a.S != aName):
						nm = cf
					default:
						good = false
					}
				}
				good = good && na == 1 && (nm == 0 || nm == -1)
				d.add(good, f.Name()+"/congruent", w.Pos(f.Pos()), "returns a or a - M (congruent to the field modulo M)", "signed rendering returns "+l.String()+", which is not congruent to the field modulo the core size")
			}
		}
	}
	d.flush()
}

// ---------------------------------------------------------------- WIRE.cli / WIRE.tally

// flagVars: storage registered with flag.XxxVar(&storage, name, ...) -> flag name
var flagVars map[string]string

func collectFlagVars(paths []*Path) {
	if flagVars != nil {
		return
	}
	flagVars = map[string]string{}
	for _, p := range paths {
		for _, e := range p.Events {
			if e.Kind != "call" || e.Callee == nil || e.Callee.Pkg == nil || e.Callee.Pkg.Pkg.Path() != "flag" || !strings.HasSuffix(e.Callee.Name(), "Var") {
				continue
			}
			for i, a := range e.Args {
				if a.Op == "addr" && i+1 < len(e.Args) && e.Args[i+1].Op == "str" {
					flagVars[stripEpoch(a.A[0]).Key()] = e.Args[i+1].S
				}
			}
		}
	}
}

func flagOf(t *T) (string, bool) {
	t = stripConv(t)
	for t.Op == "conv" {
		t = t.A[0]
	}
	if n, ok := flagVars[stripEpoch(t).Key()]; ok && (t.Op == "sel" || t.Op == "new" || t.Op == "alloc") {
		return n, true
	}
	if t.Op == "deref" && t.A[0].Op == "call" && strings.HasPrefix(t.A[0].S, "flag.") && len(t.A[0].A) >= 1 && t.A[0].A[0].Op == "str" {
		return t.A[0].A[0].S, true
	}
	return "", false
}

func ruleWireCLI(w *World, r *RuleResult) {
	var main *ssa.Function
	for _, f := range w.Funcs {
		if f.Pkg == w.SCmd && f.Name() == "main" {
			main = f
		}
	}
	if main == nil {
		r.undecided("main", "-", "cmd/gmars main not found")
		return
	}
	paths, err := w.Paths(main)
	if err != nil {
		r.undecided("main", w.Pos(main.Pos()), err.Error())
		return
	}
	collectFlagVars(paths)
	d := newDedup(r)
	c := newSimCtx(w)
	// NewQuickConfig: parameter -> config fields
	nq := w.LibFunc("NewQuickConfig")
	fieldOfParam := map[int][]string{}
	if nq != nil {
		ps, _ := w.Paths(nq)
		for _, p := range ps {
			if p.End != "ret" || p.Ret[0].Op != "struct" {
				continue
			}
			for i, n := range p.Ret[0].N {
				v := stripConv(p.Ret[0].A[i])
				if v.Op == "p" {
					for j, prm := range nq.Params {
						if prm.Name() == v.S {
							fieldOfParam[j] = append(fieldOfParam[j], n)
						}
					}
				}
			}
		}
	}
	want := map[string][]string{"s": {"CoreSize", "ReadLimit", "WriteLimit"}, "p": {"Processes"}, "c": {"Cycles"}, "l": {"Distance", "Length"}}
	sm := map[string]int64{}
	for v, n := range w.EnumValues("SimulatorMode") {
		sm[n] = v
	}
	quickKey := ""
	for _, p := range paths {
		presetSet, presetKnown := false, false
		for _, cd := range p.Conds {
			a := cd.Atom
			if a.Op == "eq" && a.A[1].Op == "str" && a.A[1].S == "" {
				if f, ok := flagOf(a.A[0]); ok && f == "preset" {
					presetKnown, presetSet = true, !cd.Val
				}
			}
		}
		for i := range p.Events {
			e := &p.Events[i]
			if e.Kind != "call" || e.Callee == nil {
				continue
			}
			switch {
			case e.Callee == nq:
				quickKey = e.Res.Key()
				got := map[string][]string{}
				for j, a := range e.Args {
					if f, ok := flagOf(a); ok {
						got[f] = append(got[f], fieldOfParam[j]...)
					} else if j > 0 {
						d.add(false, "quick/arg"+fmt.Sprint(j), c.posOf(e), "", "argument "+fmt.Sprint(j)+" of NewQuickConfig is "+a.Show()+", not a command-line flag")
					}
				}
				for f, fields := range want {
					g := got[f]
					sort.Strings(g)
					d.add(strings.Join(g, ",") == strings.Join(fields, ","), "flag/-"+f, c.posOf(e), "-"+f+" sets "+strings.Join(fields, ", "), fmt.Sprintf("flag -%s reaches configuration fields %v; it must set %v", f, g, fields))
				}
				// mode from -8
				m := stripConv(e.Args[0])
				use88, known := false, false
				for _, cd := range p.Conds {
					if f, ok := flagOf(cd.Atom); ok && f == "8" {
						known, use88 = true, cd.Val
					}
				}
				if known && m.IsConst() {
					wantM := sm["ICWS94"]
					if use88 {
						wantM = sm["ICWS88"]
					}
					d.add(m.C == wantM, "flag/-8/"+map[bool]string{true: "set", false: "unset"}[use88], c.posOf(e), "-8 selects ICWS'88, otherwise ICWS'94", "rule set passed to NewQuickConfig is "+w.EnumValues("SimulatorMode")[m.C]+" when -8 is "+map[bool]string{true: "given", false: "absent"}[use88])
				} else {
					d.add(false, "flag/-8", c.posOf(e), "", "the rule set is not selected by the -8 flag")
				}
				if presetKnown {
					d.add(!presetSet, "preset/bypass", c.posOf(e), "quick configuration only without -preset", "NewQuickConfig is used although -preset was given")
				}
			case fnKey(e.Callee) == "PresetConfig":
				f, ok := flagOf(e.Args[0])
				d.add(ok && f == "preset" && presetKnown && presetSet, "preset/name", c.posOf(e), "-preset names the configuration", "PresetConfig is called with "+e.Args[0].Show())
			case e.Callee.Name() == "CompileWarrior" || e.Callee.Name() == "NewSimulator" || e.Callee.Name() == "NewReportingSimulator":
				cfg := e.Args[len(e.Args)-1]
				isPreset := cfg.Op == "ext" && cfg.A[0].Op == "call" && cfg.A[0].S == "PresetConfig"
				isQuick := cfg.Op == "call" && nq != nil && cfg.S == fnKey(nq)
				good := (isPreset && (!presetKnown || presetSet)) || (isQuick && (!presetKnown || !presetSet))
				d.add(good, "config-use/"+e.Callee.Name(), c.posOf(e), "uses the selected configuration", e.Callee.Name()+" receives configuration "+cfg.Show()+", not the one selected by the flags")
			}
		}
		_ = quickKey
		// invoke events: SpawnWarrior / AddWarrior via interface
		var adds []*Event
		for i := range p.Events {
			e := &p.Events[i]
			if e.Method == "AddWarrior" {
				adds = append(adds, e)
			}
			if e.Method == "SpawnWarrior" && len(e.Args) == 3 {
				idx, off := stripConv(e.Args[1]), e.Args[2]
				switch {
				case idx.IsConstVal(0):
					d.add(stripConv(off).IsConstVal(0), "spawn/first", c.posOf(e), "first warrior spawned at 0", "first warrior spawned at "+off.Show())
				case idx.IsConstVal(1):
					f, isFlag := flagOf(off)
					fixedZero := hasCond(p, func(a *T, v bool) bool {
						if a.Op == "eq" && v && a.A[1].IsConstVal(0) {
							ff, ok := flagOf(a.A[0])
							return ok && ff == "F"
						}
						return false
					})
					if isFlag && f == "F" {
						d.add(!fixedZero, "spawn/second-fixed", c.posOf(e), "-F places the second warrior", "second warrior placed at -F although -F is 0 (random placement expected)")
					} else {
						d.add(fixedZero, "spawn/second-random", c.posOf(e), "random placement only when -F is 0", "second warrior is placed at "+strings.SplitN(off.Show(), "(", 2)[0]+"... although -F was given a non-zero value: the battle reported is not the one asked for")
					}
				default:
					d.add(false, "spawn/index", c.posOf(e), "", "SpawnWarrior called with warrior index "+idx.Show())
				}
			}
		}
		spawns := false
		for i := range p.Events {
			if p.Events[i].Method == "SpawnWarrior" {
				spawns = true
			}
		}
		if !spawns {
			adds = nil
		}
		for k, e := range adds {
			a := stripConv(e.Args[1])
			good := a.Op == "&elem" || true
			// argument is &warriors[k]
			s := a.Show()
			good = strings.Contains(s, fmt.Sprintf("[%d]", k))
			if len(adds) <= 2 {
				d.add(good, fmt.Sprintf("add/%d", k), c.posOf(e), fmt.Sprintf("warrior %d added %s", k+1, map[int]string{0: "first", 1: "second"}[k]), fmt.Sprintf("the %s AddWarrior call receives %s", map[int]string{0: "first", 1: "second"}[k], s))
			}
		}
		// refusals: the tool gives up (non-zero exit) only because a callee reported an error
		// or because of the command line's shape, never because of the option values themselves
		if p.End == "exit" && len(p.Events) > 0 && len(p.Conds) > 0 {
			last := p.Events[len(p.Events)-1]
			if last.Kind == "call" && len(last.Args) == 1 && last.Args[0].IsConst() && last.Args[0].C != 0 {
				cd := p.Conds[len(p.Conds)-1]
				a := cd.Atom
				isErr := a.Op == "eq" && a.A[1].Op == "nil" && !cd.Val
				// the number of command-line arguments / of warriors read from them
				shape := (a.Op == "lt" || a.Op == "eq") && a.contains(func(x *T) bool { return x.Op == "len" }) && !a.contains(func(x *T) bool {
					return x.Op == "sel" || x.Op == "mul" || x.Op == "sub"
				})
				what := "args"
				if isErr {
					what = "error"
					a.A[0].walk(func(x *T) bool {
						if x.Op == "call" {
							what = "err-of-" + x.S
							return false
						}
						return true
					})
				} else if !shape {
					what = stripEpoch(a).Show()
					if len(what) > 80 {
						what = what[:80]
					}
				}
				d.add(isErr || shape, "exit/"+what, w.Pos(cd.Pos), "non-zero exit only after a reported error or a malformed command line", "the tool exits with status "+fmt.Sprint(last.Args[0].C)+" because of "+stripEpoch(a).Show()+", which is neither an error reported by the library nor the shape of the command line: a supported combination of options is refused and no result lines are printed")
			}
		}
		// rounds loop bound
		for _, cd := range p.Conds {
			a := cd.Atom
			if a.Op == "lt" && a.A[0].Op == "loopvar" {
				if f, ok := flagOf(a.A[1]); ok {
					d.add(f == "r", "flag/-r", w.Pos(cd.Pos), "-r bounds the round loop", "the round loop is bounded by -"+f)
				}
			}
		}
	}
	d.flush()
}

func ruleWireTally(w *World, r *RuleResult) {
	var main *ssa.Function
	for _, f := range w.Funcs {
		if f.Pkg == w.SCmd && f.Name() == "main" {
			main = f
		}
	}
	if main == nil {
		r.undecided("main", "-", "cmd/gmars main not found")
		return
	}
	paths, err := w.Paths(main)
	if err != nil {
		r.undecided("main", w.Pos(main.Pos()), err.Error())
		return
	}
	collectFlagVars(paths)
	c := newSimCtx(w)
	// printed counters, in order
	var printed [][]*T
	for _, p := range paths {
		if p.End != "ret" {
			continue
		}
		var pr [][]*T
		for i := range p.Events {
			e := &p.Events[i]
			isRow := e.Kind == "call" && e.Callee != nil && fnKey(e.Callee) == "fmt.Printf" && len(e.Args) == 2 && e.Args[0].Op == "str" && strings.Count(e.Args[0].S, "%d") == 2
			va := e.Args
			if isRow {
				va = e.Args[1:]
			}
			// fmt.Println(win, tie) prints the same bytes as Printf("%d %d\n", win, tie)
			if e.Kind == "call" && e.Callee != nil && fnKey(e.Callee) == "fmt.Println" && len(e.Args) == 1 && len(elementsOf(p, e.Args[0])) == 2 {
				isRow = true
			}
			if isRow {
				els := elementsOf(p, va[0])
				var row []*T
				for k := 0; k < 2; k++ {
					x := els[fmt.Sprintf("[%d]", k)]
					if x != nil {
						x = stripConv(x)
						if x.Op == "iface" {
							x = stripConv(x.A[0])
						}
						// a rotated loop leaves through its last iteration: counter+1 is still that counter
						if l := linearOf(x); len(l.Atom) == 1 {
							for k, a := range l.Atom {
								if a.Op == "loopvar" && l.Coef[k] == 1 {
									x = a
								}
							}
						}
					}
					row = append(row, x)
				}
				pr = append(pr, row)
			}
		}
		named := func(rows [][]*T) int {
			n := 0
			for _, row := range rows {
				for _, x := range row {
					if x != nil && !x.IsConst() {
						n++
					}
				}
			}
			return n
		}
		if len(pr) > len(printed) || (len(pr) == len(printed) && named(pr) > named(printed)) {
			printed = pr
		}
	}
	pos := w.Pos(main.Pos())
	// ... or one Printf in a loop over a list of per-warrior counters made in main: line k+1 prints
	// the two counters of element k
	if len(printed) != 2 {
		for _, p := range paths {
			if p.End != "backedge" {
				continue
			}
			for i := range p.Events {
				e := &p.Events[i]
				if !(e.Kind == "call" && e.Callee != nil && fnKey(e.Callee) == "fmt.Printf" && len(e.Args) == 2 && e.Args[0].Op == "str" && strings.Count(e.Args[0].S, "%d") == 2) {
					continue
				}
				els := elementsOf(p, e.Args[1])
				var cells [2]*T
				ok := true
				for k := 0; k < 2; k++ {
					x := els[fmt.Sprintf("[%d]", k)]
					if x == nil {
						ok = false
						break
					}
					x = stripConv(x)
					if x.Op == "iface" {
						x = stripConv(x.A[0])
					}
					cells[k] = x
				}
				if !ok || cells[0].Op != "sel" || cells[1].Op != "sel" || cells[0].A[0].Op != "elem" || cells[0].A[0].Key() != cells[1].A[0].Key() {
					continue
				}
				el := cells[0].A[0]
				list, idx := stripConv(el.A[0]), stripConv(el.A[1])
				li := linearOf(idx)
				var lv *T
				for _, at := range li.Atom {
					lv = at
				}
				if list.Op != "makeslice" || len(li.Atom) != 1 || lv.Op != "loopvar" {
					continue
				}
				init, step, okv := loopVarInfo(w, main, p, lv)
				if !okv || step != 1 || !init.IsConst() || init.C+li.Const != 0 {
					continue // not an ascending walk from element 0
				}
				printed = nil
				for k := int64(0); k < 2; k++ {
					elk := &T{Op: "elem", A: []*T{list, tconst(k, idx.Ty)}, Ty: el.Ty}
					printed = append(printed, []*T{
						{Op: "sel", S: cells[0].S, A: []*T{elk}, Ty: cells[0].Ty},
						{Op: "sel", S: cells[1].S, A: []*T{elk}, Ty: cells[1].Ty},
					})
				}
			}
		}
	}
	if len(printed) != 2 || printed[0][0] == nil || printed[1][0] == nil {
		r.undecided("print", pos, "could not find the two result lines (Printf with two %d)")
		return
	}
	// the battle of a round is the library's: Run() after the spawns, and the tool never steps the
	// simulator itself (its own loop would decide the cycle limit and the stop conditions)
	{
		runAfterSpawn, stepsItself := false, ""
		for _, f := range w.Funcs {
			if f.Pkg != w.SCmd || w.covered(f) {
				continue
			}
			fps, err := w.Paths(f)
			if err != nil {
				continue
			}
			for _, p := range fps {
				spawned := false
				for i := range p.Events {
					e := &p.Events[i]
					if e.Kind != "call" {
						continue
					}
					name := e.Method
					if e.Callee != nil {
						name = e.Callee.Name()
					}
					switch name {
					case "SpawnWarrior":
						spawned = true
					case "Run":
						if spawned {
							runAfterSpawn = true
						}
					case "RunCycle":
						stepsItself = c.posOf(e)
					}
				}
			}
		}
		r.check(runAfterSpawn, "battle/run", pos, "each round spawns the warriors and then calls Run()", "no round calls Run() after spawning the warriors")
		r.check(stepsItself == "", "battle/no-own-loop", pos+stepsItself[:0], "the tool never steps the simulator itself", "the tool calls RunCycle itself: the battle it plays is decided by its own loop (its bound, its stop test), not by the cycle limit and stop conditions of Run()")
	}
	names := map[string][]string{} // one counter may serve several roles (a shared tie counter printed on both lines)
	roles := []string{"win1", "tie1", "win2", "tie2"}
	k := 0
	// a counter is a loop-carried variable of the rounds loop or a field of storage main owns
	counterKey := func(x *T) string {
		if x == nil {
			return ""
		}
		if x.Op == "loopvar" {
			return "phi:" + x.S
		}
		root := x
		for root.Op == "sel" {
			root = root.A[0]
		}
		if x.Op == "sel" && (root.Op == "new" || root.Op == "alloc") {
			return "mem:" + stripEpoch(x).Key()
		}
		// a field of a constant element of a list made in main
		if x.Op == "sel" && root.Op == "elem" && stripConv(root.A[0]).Op == "makeslice" && stripConv(root.A[1]).IsConst() {
			path := ""
			for y := x; y.Op == "sel"; y = y.A[0] {
				path = "." + y.S + path
			}
			// (the list is named by its element type and length expression: allocation numbers differ from path to path)
			ms := stripConv(root.A[0])
			return fmt.Sprintf("mem:make(%s,%s)[%d]%s", typeName(ms.Ty), stripEpoch(ms.A[0]).Key(), stripConv(root.A[1]).C, path)
		}
		return ""
	}
	for _, row := range printed {
		for _, x := range row {
			ck := counterKey(x)
			if ck == "" {
				r.bad("print/"+roles[k], pos, "result value "+fmt.Sprint(k+1)+" is not one of the round-loop counters")
				return
			}
			names[ck] = append(names[ck], roles[k])
			k++
		}
	}
	// the rounds loop: the one bounded by -r
	roundsHdr := int64(-1)
	for _, p := range paths {
		for _, cd := range p.Conds {
			if a := cd.Atom; a.Op == "lt" && a.A[0].Op == "loopvar" {
				if f, ok := flagOf(a.A[1]); ok && f == "r" {
					roundsHdr = a.A[0].C
				}
			}
		}
	}
	r.ok("print/order", pos, "first line (win, tie) of warrior 1, second line (win, tie) of warrior 2")
	d := newDedup(r)
	for _, p := range paths {
		if p.End != "backedge" {
			continue
		}
		last := p.Events[len(p.Events)-1]
		// is this the rounds loop? its header phis include the counters
		hdr := main.Blocks[int(last.Res.C)]
		var phis []*ssa.Phi
		for _, in := range hdr.Instrs {
			if ph, ok := in.(*ssa.Phi); ok {
				phis = append(phis, ph)
			}
		}
		inc := map[string]int64{}
		isRounds := last.Res.C == roundsHdr
		for i, ph := range phis {
			if ros, ok := names["phi:"+ph.Comment]; ok && i < len(last.Args) {
				isRounds = true
				l := linearOf(last.Args[i])
				dl := l.Const
				if len(l.Coef) != 1 {
					dl = 99
				}
				for _, ro := range ros {
					inc[ro] = dl
				}
			}
		}
		if !isRounds {
			continue
		}
		// counters kept in memory: what this iteration's stores add to them
		for i := range p.Events {
			e := &p.Events[i]
			if e.Kind != "store" || e.LV.Op != "sel" {
				continue
			}
			ck := counterKey(e.LV)
			if !strings.HasPrefix(ck, "mem:") {
				ck = "mem:" + stripEpoch(e.LV).Key()
			}
			if ros, ok := names[ck]; ok {
				l := linearOf(e.Val)
				for _, ro := range ros {
					if len(l.Coef) != 1 {
						inc[ro] = 99
					} else {
						inc[ro] += l.Const
					}
				}
			}
		}
		// aliveness of warrior 1 / 2 on this path
		alive := map[int][]bool{}
		for _, cd := range p.Conds {
			a := cd.Atom
			// element i of the survivor list Run() returns (RUN.only: result[i] is warrior i's aliveness)
			if x := stripConv(a); x.Op == "elem" && x.A[1].IsConst() {
				if b := stripConv(x.A[0]); b.Op == "call" && strings.HasSuffix(b.S, "Run") {
					alive[int(x.A[1].C)+1] = append(alive[int(x.A[1].C)+1], cd.Val)
					continue
				}
			}
			if a.Op == "call" && a.S == "Alive" && len(a.A) == 1 {
				rc := a.A[0].Show()
				if a.A[0].Op == "nil" {
					alive[-1] = append(alive[-1], cd.Val) // nil interface: only on the infeasible len(warriors) combination
					continue
				}
				which := 0
				if strings.Contains(rc, "[0]") {
					which = 1
				} else if strings.Contains(rc, "[1]") {
					which = 2
				}
				alive[which] = append(alive[which], cd.Val)
			}
		}
		consistent := true
		val := map[int]int{} // -1 unknown 0 false 1 true
		for _, wh := range []int{1, 2} {
			val[wh] = -1
			for _, v := range alive[wh] {
				x := 0
				if v {
					x = 1
				}
				if val[wh] != -1 && val[wh] != x {
					consistent = false
				}
				val[wh] = x
			}
		}
		// "there is no second warrior" (w2 == nil) counts as the second warrior not being alive
		if val[2] == -1 && hasCond(p, func(a *T, v bool) bool {
			return a.Op == "eq" && v && a.A[1].Op == "nil" && strings.Contains(a.A[0].Show(), "AddWarrior") && strings.Contains(a.A[0].Show(), "[1]")
		}) {
			val[2] = 0
		}
		if len(alive[0]) > 0 {
			d.add(false, "alive/receiver", pos, "", "an Alive() test is made on a value that is neither the first nor the second warrior added")
			continue
		}
		if len(alive[-1]) > 0 {
			continue // Alive() on the nil second warrior: len(warriors) > 1 false and len(warriors) == 2 true cannot both hold
		}
		if !consistent {
			continue // infeasible: the same warrior both alive and dead
		}
		single := hasCond(p, func(a *T, v bool) bool {
			return (a.Op == "eq" && v && a.A[1].IsConstVal(1) && a.A[0].Op == "len") ||
				(a.Op == "lt" && !v && a.A[0].IsConstVal(1) && a.A[1].Op == "len") // !(1 < len(warriors))
		})
		// the survivor list has one entry per loaded warrior (RUN.only): a path on which the two
		// lengths disagree about "one warrior" does not exist
		oneKnown := map[bool]bool{}
		for _, cd := range p.Conds {
			a := cd.Atom
			if a.Op == "eq" && a.A[1].IsConstVal(1) && a.A[0].Op == "len" {
				oneKnown[cd.Val] = true
			}
			if a.Op == "lt" && a.A[0].IsConstVal(1) && a.A[1].Op == "len" {
				oneKnown[!cd.Val] = true
			}
		}
		if oneKnown[true] && oneKnown[false] {
			continue
		}
		want := map[string]int64{"win1": 0, "tie1": 0, "win2": 0, "tie2": 0}
		row := ""
		if single {
			if val[1] == 1 {
				want["win1"] = 1
			}
			row = fmt.Sprintf("single warrior, alive=%v", val[1] == 1)
			if val[1] == -1 {
				continue
			}
		} else {
			if val[1] == -1 || val[2] == -1 {
				// a warrior's aliveness untested on a two-warrior path: nothing may be counted for rows needing it
				row = fmt.Sprintf("two warriors, alive1=%d alive2=%d (-1 = untested)", val[1], val[2])
			} else {
				a1, a2 := val[1] == 1, val[2] == 1
				if a1 && !a2 {
					want["win1"] = 1
				}
				if a1 && a2 {
					want["tie1"], want["tie2"] = 1, 1
				}
				if !a1 && a2 {
					want["win2"] = 1
				}
				row = fmt.Sprintf("alive1=%v alive2=%v", a1, a2)
			}
		}
		good := true
		var diffs []string
		for _, ro := range roles {
			if inc[ro] != want[ro] {
				good = false
				diffs = append(diffs, fmt.Sprintf("%s %+d (expected %+d)", ro, inc[ro], want[ro]))
			}
		}
		d.add(good, "row/"+row, pos, "counters follow the truth table", "on the row "+row+" the round is counted as "+strings.Join(diffs, ", "))
	}
	d.flush()
	_ = c
}

// loopBody: blocks of the natural loop(s) with header hdr.
func loopBody(fn *ssa.Function, hdr int) map[int]bool {
	body := map[int]bool{hdr: true}
	h := fn.Blocks[hdr]
	var stack []*ssa.BasicBlock
	for _, p := range h.Preds {
		if h.Dominates(p) {
			stack = append(stack, p)
		}
	}
	for len(stack) > 0 {
		b := stack[len(stack)-1]
		stack = stack[:len(stack)-1]
		if body[b.Index] {
			continue
		}
		body[b.Index] = true
		for _, p := range b.Preds {
			stack = append(stack, p)
		}
	}
	return body
}

// freshOnly: fn changes nothing but storage it allocated itself (local
// buffers, result slices): no map element written, no store outside fresh
// allocations, and only such functions (or itself) called.
func freshOnly(w *World, fn *ssa.Function, seen map[*ssa.Function]bool) bool {
	if seen[fn] {
		return true
	}
	seen[fn] = true
	paths, err := w.Paths(fn)
	if err != nil {
		return false
	}
	for _, p := range paths {
		for _, e := range p.Events {
			switch e.Kind {
			case "mapupdate", "send", "go":
				return false
			case "store":
				root := e.LV
				for root.Op == "sel" || root.Op == "elem" {
					root = root.A[0]
				}
				if root.Op != "new" && root.Op != "makeslice" && root.Op != "alloc" {
					return false
				}
			case "call":
				if e.Callee == nil {
					return false
				}
				if e.Callee.Pkg == w.SLib {
					if m, unk := w.modSet(e.Callee); (len(m) > 0 || unk) && !freshOnly(w, e.Callee, seen) {
						return false
					}
				} else if _, unk := w.modSet(e.Callee); unk {
					return false
				}
			}
		}
	}
	return true
}
