package main

// Structural resolution of the simulator anchors.  Nothing here depends on an
// unexported identifier's spelling: the simulator type is "the concrete type
// implementing the exported Simulator interface", the modulus is "the field its
// CoreSize method returns", and so on.  Exported API names (Simulator,
// Warrior, SimulatorConfig and its fields, Instruction, Report) are the
// property's own vocabulary and are used as such.

import (
	"fmt"
	"go/token"
	"go/types"
	"sort"
	"strings"

	"golang.org/x/tools/go/ssa"
)

type SimAnchors struct {
	SimT, WarT, QueueT                                              *types.Named
	MField, MemField                                                string
	RL, WL, MaxProcs                                                string
	MaxCycles                                                       string
	CfgMap                                                          map[string]string // sim field -> config field
	Ctor                                                            *ssa.Function
	ReadFold, WriteFold                                             *ssa.Function
	Exec                                                            *ssa.Function
	Helpers                                                         []*ssa.Function
	ReportFn                                                        *ssa.Function
	Push, Pop, QLen                                                 *ssa.Function
	Pops                                                            []*ssa.Function // every queue method that removes and returns the oldest task (Pop and what it is built on)
	QField                                                          string          // warrior field holding *queue
	StateField                                                      string
	IndexField                                                      string
	Spawn, RunCycle, Run, Reset                                     *ssa.Function
	WarriorsField, CountField, LivingField, CycleField, CursorField string
	Err                                                             []string
}

var simAnchors *SimAnchors

func implementers(w *World, ifaceName string) []*types.Named {
	obj := w.Lib.Types.Scope().Lookup(ifaceName)
	if obj == nil {
		return nil
	}
	iface, ok := obj.Type().Underlying().(*types.Interface)
	if !ok {
		return nil
	}
	var out []*types.Named
	sc := w.Lib.Types.Scope()
	for _, n := range sc.Names() {
		tn, ok := sc.Lookup(n).(*types.TypeName)
		if !ok {
			continue
		}
		nt, ok := tn.Type().(*types.Named)
		if !ok {
			continue
		}
		if _, isI := nt.Underlying().(*types.Interface); isI {
			continue
		}
		if types.Implements(types.NewPointer(nt), iface) || types.Implements(nt, iface) {
			out = append(out, nt)
		}
	}
	return out
}

func typeName(t types.Type) string {
	return types.TypeString(t, func(*types.Package) string { return "" })
}

// retField: if every return of the method is a load of one receiver field, its name.
func retField(w *World, fn *ssa.Function) string {
	if fn == nil {
		return ""
	}
	paths, err := w.Paths(fn)
	if err != nil {
		return ""
	}
	name := ""
	for _, p := range paths {
		if p.End != "ret" || len(p.Ret) != 1 {
			return ""
		}
		t := stripConv(p.Ret[0])
		if t.Op != "sel" || t.A[0].Op != "deref" || t.A[0].A[0].Op != "p" {
			return ""
		}
		if name != "" && name != t.S {
			return ""
		}
		name = t.S
	}
	return name
}

func Anchors(w *World) *SimAnchors {
	if simAnchors != nil {
		return simAnchors
	}
	a := &SimAnchors{CfgMap: map[string]string{}}
	simAnchors = a
	defer func() {
		w.MarkBoundary("simulator anchor", a.Ctor, a.ReadFold, a.WriteFold, a.Exec, a.ReportFn, a.Push, a.Pop, a.QLen, a.Spawn, a.RunCycle, a.Run, a.Reset)
		w.MarkBoundary("opcode helper of the executor", a.Helpers...)
		w.MarkBoundary("queue pop primitive", a.Pops...)
	}()
	fail := func(f string, args ...any) { a.Err = append(a.Err, fmt.Sprintf(f, args...)) }
	sims := implementers(w, "Simulator")
	if len(sims) != 1 {
		fail("expected exactly one concrete Simulator, found %d", len(sims))
		return a
	}
	a.SimT = sims[0]
	wars := implementers(w, "Warrior")
	if len(wars) != 1 {
		fail("expected exactly one concrete Warrior, found %d", len(wars))
		return a
	}
	a.WarT = wars[0]
	sn := a.SimT.Obj().Name()
	a.MField = retField(w, w.Method(sn, "CoreSize"))
	if a.MField == "" {
		fail("CoreSize() does not return a single field")
	}
	st := a.SimT.Underlying().(*types.Struct)
	instT := w.NamedType("Instruction")
	for _, f := range flatFields(st) {
		if sl, ok := f.Type().Underlying().(*types.Slice); ok {
			if types.Identical(sl.Elem(), instT) {
				if a.MemField != "" {
					fail("two []Instruction fields in simulator")
				}
				a.MemField = f.Name()
			}
			if p, ok := sl.Elem().(*types.Pointer); ok && types.Identical(p.Elem(), a.WarT) {
				a.WarriorsField = f.Name()
			}
		}
	}
	if a.MemField == "" {
		fail("no []Instruction field in simulator")
	}
	a.CountField = retField(w, w.Method(sn, "WarriorCount"))
	a.LivingField = retField(w, w.Method(sn, "WarriorLivingCount"))
	a.CycleField = retField(w, w.Method(sn, "CycleCount"))
	a.MaxCycles = retField(w, w.Method(sn, "MaxCycles"))
	// constructor: the library function that stores config fields into a fresh SimT
	for _, fn := range w.Funcs {
		if fn.Pkg != w.SLib {
			continue
		}
		if !allocsType(fn, a.SimT) {
			continue
		}
		paths, err := w.Paths(fn)
		if err != nil {
			continue
		}
		found := false
		for _, p := range paths {
			for _, e := range p.Events {
				if e.Kind != "store" || e.LV.Op != "sel" || e.LV.A[0].Op != "new" || e.Instr.Parent() != fn {
					continue
				}
				if pt, ok := e.LV.A[0].Ty.(*types.Pointer); !ok || !types.Identical(pt.Elem(), a.SimT) {
					continue
				}
				v := stripConv(e.Val)
				if v.Op == "sel" && v.A[0].Op == "p" && typeName(v.A[0].Ty) == "SimulatorConfig" {
					a.CfgMap[e.LV.S] = v.S
					found = true
				}
			}
		}
		if found {
			if a.Ctor != nil && a.Ctor != fn {
				fail("two constructors store config fields: %s and %s", a.Ctor.Name(), fn.Name())
			}
			a.Ctor = fn
		}
	}
	for sf, cf := range a.CfgMap {
		switch cf {
		case "ReadLimit":
			a.RL = sf
		case "WriteLimit":
			a.WL = sf
		case "Processes":
			a.MaxProcs = sf
		case "CoreSize":
			if sf != a.MField {
				fail("CoreSize() returns %s but config.CoreSize is stored in %s", a.MField, sf)
			}
		case "Cycles":
			if a.MaxCycles != "" && a.MaxCycles != sf {
				fail("MaxCycles() returns %s but config.Cycles is stored in %s", a.MaxCycles, sf)
			}
			a.MaxCycles = sf
		}
	}
	if a.RL == "" || a.WL == "" || a.MaxProcs == "" {
		fail("constructor does not store ReadLimit/WriteLimit/Processes (map: %v)", a.CfgMap)
	}
	// fold helpers: methods (Address) Address of SimT whose body takes the parameter modulo RL / WL
	ms := w.Prog.MethodSets.MethodSet(types.NewPointer(a.SimT))
	var methods []*ssa.Function
	for i := 0; i < ms.Len(); i++ {
		if f := w.Prog.MethodValue(ms.At(i)); f != nil && f.Synthetic == "" && len(f.Blocks) > 0 {
			methods = append(methods, f)
		}
	}
	sort.Slice(methods, func(i, j int) bool { return methods[i].Name() < methods[j].Name() })
	for _, f := range methods {
		if len(f.Params) != 2 || f.Signature.Results().Len() != 1 || typeName(f.Params[1].Type()) != "Address" || typeName(f.Signature.Results().At(0).Type()) != "Address" {
			continue
		}
		paths, err := w.Paths(f)
		if err != nil {
			continue
		}
		usesRL, usesWL := false, false
		for _, p := range paths {
			for _, r := range p.Ret {
				r.walk(func(x *T) bool {
					if x.Op == "rem" && x.A[0].Op == "p" && x.A[1].Op == "sel" {
						if x.A[1].S == a.RL {
							usesRL = true
						}
						if x.A[1].S == a.WL {
							usesWL = true
						}
					}
					return true
				})
			}
		}
		if usesRL && !usesWL {
			if a.ReadFold != nil {
				fail("two read-fold helpers")
			}
			a.ReadFold = f
		}
		if usesWL && !usesRL {
			if a.WriteFold != nil {
				fail("two write-fold helpers")
			}
			a.WriteFold = f
		}
	}
	if a.ReadFold == nil || a.WriteFold == nil {
		fail("fold helpers not found (a method taking its Address parameter modulo the read/write limit)")
		return a
	}
	// executor: the unique caller of the fold helpers
	callers := map[*ssa.Function]bool{}
	for _, c := range append(w.Callers(a.ReadFold), w.Callers(a.WriteFold)...) {
		callers[c.Parent()] = true
	}
	if len(callers) != 1 {
		fail("fold helpers have %d distinct callers, expected 1 (the executor)", len(callers))
		return a
	}
	for f := range callers {
		a.Exec = f
	}
	// Report fan-out: method of SimT taking a Report
	for _, f := range methods {
		if len(f.Params) == 2 && typeName(f.Params[1].Type()) == "Report" {
			a.ReportFn = f
		}
	}
	if a.ReportFn == nil {
		fail("no Report(Report) method on the simulator")
	}
	// helpers: simulator methods called from the executor, other than folds and Report
	seen := map[*ssa.Function]bool{}
	helper := func(f *ssa.Function) {
		if f == nil || f == a.ReadFold || f == a.WriteFold || f == a.ReportFn || f.Signature.Recv() == nil {
			return
		}
		takesInstr := false
		for _, prm := range f.Params {
			if typeName(prm.Type()) == "Instruction" {
				takesInstr = true // an opcode helper is handed the instruction register
			}
		}
		if rt, ok := f.Signature.Recv().Type().(*types.Pointer); ok && types.Identical(rt.Elem(), a.SimT) && !seen[f] && takesInstr {
			seen[f] = true
			a.Helpers = append(a.Helpers, f)
		}
	}
	dispatchesByValue := false
	for _, b := range a.Exec.Blocks {
		for _, in := range b.Instrs {
			if c, ok := in.(ssa.CallInstruction); ok {
				helper(c.Common().StaticCallee())
				if _, isBuiltin := c.Common().Value.(*ssa.Builtin); c.Common().StaticCallee() == nil && !c.Common().IsInvoke() && !isBuiltin {
					dispatchesByValue = true
				}
			}
		}
	}
	// ... or through a dispatch table the package initialiser fills with method expressions
	if initFn := w.SLib.Func("init"); dispatchesByValue && initFn != nil {
		for _, b := range initFn.Blocks {
			for _, in := range b.Instrs {
				for _, op := range in.Operands(nil) {
					if f, ok := (*op).(*ssa.Function); ok {
						if f.Synthetic != "" && strings.HasSuffix(f.Name(), "$thunk") {
							f = boundMethod(w, f)
						}
						helper(f)
					}
				}
			}
		}
	}
	// queue: pointer field of the warrior whose type has Push and Pop
	wst := a.WarT.Underlying().(*types.Struct)
	for i := 0; i < wst.NumFields(); i++ {
		f := wst.Field(i)
		if p, ok := f.Type().(*types.Pointer); ok {
			if nt, ok := p.Elem().(*types.Named); ok {
				push := w.Method(nt.Obj().Name(), "Push")
				pop := w.Method(nt.Obj().Name(), "Pop")
				if push != nil && pop != nil {
					a.QueueT, a.QField, a.Push, a.Pop = nt, f.Name(), push, pop
					a.QLen = w.Method(nt.Obj().Name(), "Len")
					// the removing primitive(s): queue methods returning (Address, _) that decrement a field
					for _, fn := range w.Funcs {
						s := fn.Signature
						if fn.Pkg != w.SLib || s.Recv() == nil || s.Results().Len() != 2 || typeName(s.Results().At(0).Type()) != "Address" {
							continue
						}
						if rp, ok := s.Recv().Type().(*types.Pointer); !ok || !types.Identical(rp.Elem(), nt) {
							continue
						}
						if decrementsField(fn, map[*ssa.Function]bool{}) {
							a.Pops = append(a.Pops, fn)
						}
					}
					// the innermost one is the primitive the queue rules analyse
					for _, fn := range a.Pops {
						inner := true
						for _, g := range a.Pops {
							if g != fn && callsStatically(fn, g) {
								inner = false
							}
						}
						if inner {
							a.Pop = fn
						}
					}
				}
			}
		}
		if typeName(f.Type()) == "WarriorState" {
			a.StateField = f.Name()
		}
	}
	if a.QueueT == nil {
		fail("warrior has no queue field (pointer to a type with Push/Pop)")
	}
	if a.StateField == "" {
		fail("warrior has no WarriorState field")
	}
	a.Spawn = calleeOfMethod(w, sn, "SpawnWarrior")
	a.RunCycle = w.Method(sn, "RunCycle")
	a.Run = w.Method(sn, "Run")
	a.Reset = w.Method(sn, "Reset")
	if a.Spawn == nil || a.RunCycle == nil || a.Run == nil || a.Reset == nil {
		fail("SpawnWarrior/RunCycle/Run/Reset not resolved")
	}
	return a
}

// calleeOfMethod: exported method that merely forwards to an unexported one
// resolves to the callee; otherwise the method itself.
func calleeOfMethod(w *World, typ, name string) *ssa.Function {
	f := w.Method(typ, name)
	if f == nil {
		return nil
	}
	if len(f.Blocks) == 1 {
		for _, in := range f.Blocks[0].Instrs {
			if c, ok := in.(*ssa.Call); ok {
				if callee := c.Call.StaticCallee(); callee != nil && callee.Pkg == f.Pkg {
					return callee
				}
			}
		}
	}
	return f
}

// allocsType: fn (or a helper it calls directly) allocates a value of type t.
func allocsType(fn *ssa.Function, t types.Type) bool {
	has := func(f *ssa.Function) bool {
		for _, b := range f.Blocks {
			for _, in := range b.Instrs {
				if al, ok := in.(*ssa.Alloc); ok {
					if pt, ok := al.Type().(*types.Pointer); ok && types.Identical(pt.Elem(), t) {
						return true
					}
				}
			}
		}
		return false
	}
	if has(fn) {
		return true
	}
	for _, b := range fn.Blocks {
		for _, in := range b.Instrs {
			if c, ok := in.(*ssa.Call); ok {
				if cal := c.Call.StaticCallee(); cal != nil && cal.Pkg == fn.Pkg && has(cal) {
					return true
				}
			}
		}
	}
	return false
}

// flatFields: the fields of st with embedded structs flattened (promoted fields).
func flatFields(st *types.Struct) []*types.Var {
	var out []*types.Var
	for i := 0; i < st.NumFields(); i++ {
		f := st.Field(i)
		if embeddedStruct(f) {
			out = append(out, flatFields(f.Type().Underlying().(*types.Struct))...)
			continue
		}
		out = append(out, f)
	}
	return out
}

// decrementsField: fn (or a same-package function it calls) stores x - 1 into a struct field.
func decrementsField(fn *ssa.Function, seen map[*ssa.Function]bool) bool {
	if seen[fn] {
		return false
	}
	seen[fn] = true
	for _, b := range fn.Blocks {
		for _, in := range b.Instrs {
			switch in := in.(type) {
			case *ssa.Store:
				if _, ok := in.Addr.(*ssa.FieldAddr); ok {
					if bo, ok := in.Val.(*ssa.BinOp); ok && bo.Op == token.SUB {
						if c, ok := bo.Y.(*ssa.Const); ok && c.Value != nil && c.Int64() == 1 {
							return true
						}
					}
				}
			case *ssa.Call:
				if cal := in.Call.StaticCallee(); cal != nil && cal.Pkg == fn.Pkg && decrementsField(cal, seen) {
					return true
				}
			}
		}
	}
	return false
}

func callsStatically(f, g *ssa.Function) bool {
	for _, b := range f.Blocks {
		for _, in := range b.Instrs {
			if c, ok := in.(*ssa.Call); ok && c.Call.StaticCallee() == g {
				return true
			}
		}
	}
	return false
}
