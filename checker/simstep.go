package main

// Rules over the instruction executor and its per-opcode helpers (E2 + the
// C01/C04/C11/C12/C15 rule families).  All of them are projections of one
// analysis: every feasible path of the executor (one per addressing-mode pair
// and opcode, obtained by value-set refinement on the fetched instruction's
// mode/opcode fields) and of each helper (one per modifier and data-dependent
// outcome), with symbolic terms for every core access, queue push and report.

import (
	"fmt"
	"go/token"
	"sort"
	"strings"

	"golang.org/x/tools/go/ssa"
)

type simCtx struct {
	w    *World
	a    *SimAnchors
	recv string           // receiver parameter name of the function under analysis
	pc   string           // name of the PC parameter (exec) or "" (helpers use roles)
	am   map[string]int64 // AddressMode name -> value
	rt   map[string]int64 // ReportType name -> value
	oc   map[string]int64 // OpCode
	om   map[string]int64 // OpMode
}

func newSimCtx(w *World) *simCtx {
	c := &simCtx{w: w, a: Anchors(w)}
	inv := func(tn string) map[string]int64 {
		m := map[string]int64{}
		for v, n := range w.EnumValues(tn) {
			m[n] = v
		}
		return m
	}
	c.am, c.rt, c.oc, c.om = inv("AddressMode"), inv("ReportType"), inv("OpCode"), inv("OpMode")
	return c
}

func (c *simCtx) isRecvField(t *T, field string) bool {
	t = stripConv(t)
	return t != nil && t.Op == "sel" && t.S == field && t.A[0].Op == "deref" && t.A[0].A[0].Op == "p" && typeName(t.A[0].A[0].Ty) == "*"+c.a.SimT.Obj().Name()
}
func (c *simCtx) isM(t *T) bool { return c.isRecvField(t, c.a.MField) }

// isPopFn: fn removes and returns the oldest task of a queue
func (c *simCtx) isPopFn(fn *ssa.Function) bool {
	for _, p := range c.a.Pops {
		if p == fn {
			return true
		}
	}
	return fn != nil && fn == c.a.Pop
}

// isPopCall: t is the result tuple of a pop primitive
func (c *simCtx) isPopCall(t *T) bool {
	if t == nil || t.Op != "call" {
		return false
	}
	for _, p := range c.a.Pops {
		if t.S == fnKey(p) {
			return true
		}
	}
	return c.a.Pop != nil && t.S == fnKey(c.a.Pop)
}

// popFailed: the condition says a pop found nothing: its error is non-nil, or its ok flag is false
func (c *simCtx) popFailed(a *T, v bool) bool {
	if a.Op == "eq" && !v && a.A[1].Op == "nil" && a.A[0].Op == "ext" && c.isPopCall(a.A[0].A[0]) {
		return true
	}
	return a.Op == "ext" && a.C == 2 && !v && c.isPopCall(a.A[0])
}

// isCount: the number of warriors: the counter field, or the length of the warrior list
func (c *simCtx) isCount(t *T) bool {
	t = stripConv(t)
	if c.a.CountField != "" && c.isRecvField(t, c.a.CountField) {
		return true
	}
	return t.Op == "len" && c.a.WarriorsField != "" && c.isRecvField(t.A[0], c.a.WarriorsField)
}

// cell: t is core[idx] (field "") or core[idx].F
func (c *simCtx) cell(t *T) (idx *T, field string, ok bool) {
	if t == nil {
		return nil, "", false
	}
	if t.Op == "sel" && t.A[0].Op == "elem" {
		if i, _, ok := c.cell(t.A[0]); ok {
			return i, t.S, true
		}
		return nil, "", false
	}
	if t.Op == "elem" && c.isRecvField(t.A[0], c.a.MemField) {
		return t.A[1], "", true
	}
	return nil, "", false
}

// pcPlus: t == (PC + off) % M ; returns off (constant 0 when t == PC % M).
func (c *simCtx) pcPlus(t *T, isPC func(*T) bool) (off *T, ok bool) {
	if t.Op != "rem" || !c.isM(t.A[1]) {
		return nil, false
	}
	x := t.A[0]
	if isPC(x) {
		return tconst(0, nil), true
	}
	if x.Op != "add" {
		return nil, false
	}
	var rest []*T
	n := 0
	for _, a := range x.A {
		if isPC(a) {
			n++
		} else {
			rest = append(rest, a)
		}
	}
	if n != 1 {
		return nil, false
	}
	return mkadd(rest, nil), true
}

type ptrKind struct {
	RW  byte // 'R' 'W' or 0 for the immediate offset 0
	Op  byte // 'A' 'B'
	Lvl int  // 0 immediate, 1 direct, 2 indirect
	F   string
}

func (k ptrKind) String() string {
	if k.Lvl == 0 {
		return "imm0"
	}
	s := fmt.Sprintf("%cF(%c,%d", k.RW, k.Op, k.Lvl)
	if k.F != "" {
		s += "," + k.F
	}
	return s + ")"
}

type execView struct {
	c      *simCtx
	fn     *ssa.Function
	pcName string
}

func (v *execView) isPC(t *T) bool { return t != nil && t.Op == "p" && t.S == v.pcName }

// irField: t is the F field of the instruction fetched at PC.
func (v *execView) irField(t *T) (string, bool) {
	idx, f, ok := v.c.cell(t)
	if ok && f != "" && v.isPC(idx) {
		return f, true
	}
	return "", false
}

func (v *execView) foldKind(t *T) (ptrKind, bool) {
	t = stripConv(t)
	if t.IsConstVal(0) {
		return ptrKind{}, true
	}
	if t.Op != "call" || len(t.A) != 2 {
		return ptrKind{}, false
	}
	var rw byte
	switch t.S {
	case fnKey(v.c.a.ReadFold):
		rw = 'R'
	case fnKey(v.c.a.WriteFold):
		rw = 'W'
	default:
		return ptrKind{}, false
	}
	x := stripConv(t.A[1])
	if f, ok := v.irField(x); ok && (f == "A" || f == "B") {
		return ptrKind{RW: rw, Op: f[0], Lvl: 1}, true
	}
	if x.Op == "add" && len(x.A) == 2 {
		for i := 0; i < 2; i++ {
			k1, ok1 := v.foldKind(x.A[i])
			if !ok1 || k1.Lvl != 1 || k1.RW != rw {
				continue
			}
			idx, f, ok := v.c.cell(x.A[1-i])
			if !ok || (f != "A" && f != "B") {
				continue
			}
			off, ok := v.c.pcPlus(idx, v.isPC)
			if !ok || off.Show() != x.A[i].Show() {
				continue
			}
			return ptrKind{RW: rw, Op: k1.Op, Lvl: 2, F: f}, true
		}
	}
	return ptrKind{}, false
}

// addrKind classifies a core address: "PC", "NEXT(c)", or ADDR with a pointer kind.
type addrKind struct {
	Class string // PC NEXT ADDR
	C     int64
	P     ptrKind
}

func (k addrKind) String() string {
	switch k.Class {
	case "PC":
		return "PC"
	case "NEXT":
		return fmt.Sprintf("NEXT(%d)", k.C)
	}
	return "PC+" + k.P.String()
}

func (v *execView) addrKind(t *T) (addrKind, bool) {
	t = stripConv(t)
	if v.isPC(t) {
		return addrKind{Class: "PC"}, true
	}
	off, ok := v.c.pcPlus(t, v.isPC)
	if !ok {
		return addrKind{}, false
	}
	if off.IsConst() && off.C != 0 {
		return addrKind{Class: "NEXT", C: off.C}, true
	}
	k, ok := v.foldKind(off)
	if !ok {
		return addrKind{}, false
	}
	return addrKind{Class: "ADDR", P: k}, true
}

type modeInfo struct {
	Imm, Indirect, PreDec, PostInc bool
	F                              string
	Lvl                            int
}

func (c *simCtx) modeInfo(m int64) (modeInfo, bool) {
	name := ""
	for n, v := range c.am {
		if v == m {
			name = n
		}
	}
	switch name {
	case "IMMEDIATE":
		return modeInfo{Imm: true, Lvl: 0}, true
	case "DIRECT":
		return modeInfo{Lvl: 1}, true
	case "A_INDIRECT":
		return modeInfo{Indirect: true, F: "A", Lvl: 2}, true
	case "B_INDIRECT":
		return modeInfo{Indirect: true, F: "B", Lvl: 2}, true
	case "A_DECREMENT":
		return modeInfo{Indirect: true, PreDec: true, F: "A", Lvl: 2}, true
	case "B_DECREMENT":
		return modeInfo{Indirect: true, PreDec: true, F: "B", Lvl: 2}, true
	case "A_INCREMENT":
		return modeInfo{Indirect: true, PostInc: true, F: "A", Lvl: 2}, true
	case "B_INCREMENT":
		return modeInfo{Indirect: true, PostInc: true, F: "B", Lvl: 2}, true
	}
	return modeInfo{}, false
}

func bitsOf(m uint64) []int64 {
	var out []int64
	for i := int64(0); i < 64; i++ {
		if m&(1<<uint(i)) != 0 {
			out = append(out, i)
		}
	}
	return out
}

// execPathInfo: the mode/opcode specialisation a path belongs to.
type execPathInfo struct {
	p          *Path
	am, bm, op int64
	amOK       bool
	label      string
}

func (v *execView) pathInfo(p *Path) (execPathInfo, string) {
	info := execPathInfo{p: p, am: -1, bm: -1, op: -1}
	for k, set := range p.Sets {
		t := p.SetTerms[k]
		f, ok := v.irField(t)
		if !ok {
			continue
		}
		bs := bitsOf(set)
		if len(bs) != 1 {
			continue
		}
		switch f {
		case "AMode":
			info.am = bs[0]
		case "BMode":
			info.bm = bs[0]
		case "Op":
			info.op = bs[0]
		}
	}
	if info.am < 0 || info.bm < 0 || info.op < 0 {
		return info, "path is not specialised to a single (A-mode, B-mode, opcode): the executor no longer case-splits on the fetched instruction's fields"
	}
	c := v.c
	info.label = fmt.Sprintf("%s/%s,%s", c.w.EnumConstName(c.w.NamedType("OpCode"), info.op), c.w.EnumConstName(c.w.NamedType("AddressMode"), info.am), c.w.EnumConstName(c.w.NamedType("AddressMode"), info.bm))
	return info, ""
}

// reportOf decodes a call event to the simulator's Report fan-out.
type reportEv struct {
	Type   int64
	Addr   *T
	WIdx   *T
	Cycle  *T
	TypeOK bool
}

func (c *simCtx) reportOf(e *Event) (reportEv, bool) {
	if e.Kind != "call" || e.Callee != c.a.ReportFn || len(e.Args) != 2 {
		return reportEv{}, false
	}
	s := e.Args[1]
	r := reportEv{}
	if s.Op != "struct" {
		return r, true
	}
	for i, n := range s.N {
		switch n {
		case "Type":
			if s.A[i].IsConst() {
				r.Type, r.TypeOK = s.A[i].C, true
			}
		case "Address":
			r.Addr = s.A[i]
		case "WarriorIndex":
			r.WIdx = s.A[i]
		case "Cycle":
			r.Cycle = s.A[i]
		}
	}
	return r, true
}

func (c *simCtx) isPush(e *Event) bool { return e.Kind == "call" && e.Callee == c.a.Push }

func (c *simCtx) isHelper(f *ssa.Function) bool {
	for _, h := range c.a.Helpers {
		if h == f {
			return true
		}
	}
	return false
}

func (c *simCtx) posOf(e *Event) string {
	if e.Pos.IsValid() {
		return c.w.Pos(e.Pos)
	}
	if e.Instr != nil {
		return c.w.Pos(instrPos(e.Instr))
	}
	return "-"
}

// instrPos finds a usable position for an instruction (loads often have none).
func instrPos(in ssa.Instruction) token.Pos {
	return instrPosD(in, 0)
}

func instrPosD(in ssa.Instruction, depth int) token.Pos {
	if in.Pos().IsValid() {
		return in.Pos()
	}
	if depth < 6 {
		if _, isPhi := in.(*ssa.Phi); !isPhi {
			var ops []*ssa.Value
			for _, op := range in.Operands(ops) {
				if op != nil && *op != nil {
					if i, ok := (*op).(ssa.Instruction); ok {
						if p := instrPosD(i, depth+1); p.IsValid() {
							return p
						}
					}
				}
			}
		}
	}
	b := in.Block()
	if b != nil {
		for _, i := range b.Instrs {
			if i.Pos().IsValid() {
				return i.Pos()
			}
		}
	}
	if in.Parent() != nil {
		return in.Parent().Pos()
	}
	return token.NoPos
}

func opLetter(b byte) string { return string([]byte{b}) }

// ---------------------------------------------------------------------------
// Executor operand phase: FOLD.arg, FOLD.load, FOLD.store, ORDER.operand,
// FOLD.jump, SPL.order, PAIR.report (executor part), MOD.*, NI.

type execAnalysis struct {
	v     *execView
	paths []*Path
	infos []execPathInfo
	err   string
	// helper parameter roles derived from call sites: helper -> param index -> role
	roles map[*ssa.Function][]string
	// per helper, the set of opcodes dispatching to it
	opsOf   map[*ssa.Function]map[int64]bool
	roleErr []string
	cands   map[*ssa.Function][]map[string]int
	ncalls  map[*ssa.Function]int
}

var execMemo *execAnalysis

func analyseExec(w *World) *execAnalysis {
	if execMemo != nil {
		return execMemo
	}
	c := newSimCtx(w)
	ea := &execAnalysis{roles: map[*ssa.Function][]string{}, opsOf: map[*ssa.Function]map[int64]bool{}, cands: map[*ssa.Function][]map[string]int{}, ncalls: map[*ssa.Function]int{}}
	execMemo = ea
	if len(c.a.Err) > 0 || c.a.Exec == nil {
		ea.err = "UNRESOLVED-ANCHOR: " + strings.Join(c.a.Err, "; ")
		return ea
	}
	fn := c.a.Exec
	v := &execView{c: c, fn: fn}
	for _, p := range fn.Params {
		if typeName(p.Type()) == "Address" {
			if v.pcName != "" {
				ea.err = "executor has two Address parameters"
				return ea
			}
			v.pcName = p.Name()
		}
	}
	ea.v = v
	paths, err := w.Paths(fn)
	if err != nil {
		ea.err = err.Error()
		return ea
	}
	for _, p := range paths {
		if p.End != "ret" {
			ea.err = fmt.Sprintf("executor path ends in %s (loop or panic in the executor is not analysable by the per-path rules)", p.End)
			return ea
		}
	}
	ea.paths = paths
	for _, p := range paths {
		info, msg := v.pathInfo(p)
		if msg != "" {
			ea.err = msg
			return ea
		}
		ea.infos = append(ea.infos, info)
	}
	// helper roles
	for _, info := range ea.infos {
		for i := range info.p.Events {
			e := &info.p.Events[i]
			if e.Kind != "call" || !c.isHelper(e.Callee) {
				continue
			}
			if ea.opsOf[e.Callee] == nil {
				ea.opsOf[e.Callee] = map[int64]bool{}
			}
			ea.opsOf[e.Callee][info.op] = true
			if _, ok := ea.cands[e.Callee]; !ok {
				ea.cands[e.Callee] = make([]map[string]int, len(e.Args))
				for j := range e.Args {
					ea.cands[e.Callee][j] = map[string]int{}
				}
			}
			ea.ncalls[e.Callee]++
			for j, a := range e.Args {
				if j < len(ea.cands[e.Callee]) {
					for _, ro := range v.argRoles(a, info) {
						ea.cands[e.Callee][j][ro]++
					}
				}
			}
		}
	}
	for h, cs := range ea.cands {
		roles := make([]string, len(cs))
		for j, m := range cs {
			var full []string
			var all []string
			for ro, n := range m {
				all = append(all, fmt.Sprintf("%s(%d/%d paths)", ro, n, ea.ncalls[h]))
				if n == ea.ncalls[h] {
					full = append(full, ro)
				}
			}
			sort.Strings(full)
			sort.Strings(all)
			if len(full) == 1 {
				roles[j] = full[0]
			} else {
				roles[j] = "?"
				ea.roleErr = append(ea.roleErr, fmt.Sprintf("%s parameter %d (%s) has no single role on all executor paths: %s", h.Name(), j, h.Params[j].Name(), strings.Join(all, ", ")))
			}
		}
		ea.roles[h] = roles
	}
	return ea
}

// argRoles names what the executor passes to a helper parameter, as the set
// of roles compatible with this path.  With an immediate operand the offset is
// the constant 0 and PC+0 does not say which operand it came from, so such a
// path is compatible with either role; the intersection over all 64 mode pairs
// is what identifies the parameter.
func (v *execView) argRoles(a *T, info execPathInfo) []string {
	a = stripConv(a)
	ai, _ := v.c.modeInfo(info.am)
	bi, _ := v.c.modeInfo(info.bm)
	if a.Op == "p" {
		if v.isPC(a) {
			return []string{"PC"}
		}
		if a.S == v.fn.Params[0].Name() {
			return []string{"S"}
		}
		return []string{"W"}
	}
	if idx, f, ok := v.c.cell(a); ok && f == "" {
		k, ok := v.addrKind(idx)
		if !ok {
			return []string{"cell@?" + idx.Show()}
		}
		if k.Class == "PC" {
			return []string{"IR"}
		}
		if k.Class == "ADDR" && k.P.Lvl == 0 {
			var out []string
			if ai.Imm {
				out = append(out, "IRA")
			}
			if bi.Imm {
				out = append(out, "IRB")
			}
			return out
		}
		if k.Class == "ADDR" && k.P.RW == 'R' {
			mi := ai
			if k.P.Op == 'B' {
				mi = bi
			}
			if k.String() == v.fetchAddr(k.P.Op, mi) {
				return []string{"IR" + opLetter(k.P.Op)}
			}
		}
		return []string{"cell@" + k.String()}
	}
	if k, ok := v.addrKind(a); ok && k.Class == "ADDR" {
		if k.P.Lvl == 0 {
			var out []string
			if ai.Imm {
				out = append(out, "RAA")
			}
			if bi.Imm {
				out = append(out, "WAB")
			}
			return out
		}
		mi := ai
		if k.P.Op == 'B' {
			mi = bi
		}
		if k.P.Lvl != mi.Lvl || k.P.F != mi.F {
			return []string{"addr@" + k.String() + "(wrong level for mode)"}
		}
		if k.P.RW == 'W' {
			return []string{"WA" + opLetter(k.P.Op)}
		}
		return []string{"RA" + opLetter(k.P.Op)}
	}
	return []string{"?" + a.Show()}
}

// opOf: which operand chain an address belongs to.  For the immediate offset
// 0 the chain is not visible in the term; it is taken from the only operand
// whose mode is immediate on this path.
func (v *execView) opOf(k ptrKind, info execPathInfo, t *T) byte {
	if k.Lvl != 0 {
		return k.Op
	}
	ai, _ := v.c.modeInfo(info.am)
	bi, _ := v.c.modeInfo(info.bm)
	if ai.Imm && !bi.Imm {
		return 'A'
	}
	if bi.Imm && !ai.Imm {
		return 'B'
	}
	return '*'
}

func init() {
	register(&Rule{Name: "FOLD.arg", Min: 300, Doc: "every fold call in the executor folds the right pointer chain at the right level", Run: ruleFoldArg})
	register(&Rule{Name: "FOLD.load", Min: 1000, Doc: "operand fetches read at read-folded addresses of their own operand; instruction fetch at PC", Run: ruleFoldLoad})
	register(&Rule{Name: "FOLD.store", Min: 60, Doc: "executor stores are pre-decrement/post-increment of the operand's own first-level write pointer", Run: ruleFoldStore})
	register(&Rule{Name: "ORDER.operand", Min: 1000, Doc: "A pre-dec < A reads < A fetch < A post-inc < B pre-dec < B reads < B fetch < B post-inc < dispatch", Run: ruleOrderOperand})
	register(&Rule{Name: "FOLD.jump", Min: 100, Doc: "queued successors are RADDR(A), PC+1 or PC+2", Run: ruleFoldJump})
	register(&Rule{Name: "FOLD.limit", Min: 2, Doc: "each fold helper reads only its own limit and the modulus", Run: ruleFoldLimit})
	register(&Rule{Name: "FOLD.body", Min: 4, Doc: "fold helper == ICWS'94 Fold term for term", Run: ruleFoldBody})
	register(&Rule{Name: "ROLES", Min: 10, Doc: "helper parameters receive IR/IRA/IRB/WAB/RAB/PC consistently on all executor paths", Run: ruleRoles})
}

func execGuard(r *RuleResult, ea *execAnalysis) bool {
	if ea.err != "" {
		r.undecided("executor", "-", ea.err)
		return false
	}
	return true
}

func ruleRoles(w *World, r *RuleResult) {
	ea := analyseExec(w)
	if !execGuard(r, ea) {
		return
	}
	for _, e := range ea.roleErr {
		r.bad("inconsistent", w.Pos(ea.v.fn.Pos()), e)
	}
	var hs []*ssa.Function
	for h := range ea.roles {
		hs = append(hs, h)
	}
	sort.Slice(hs, func(i, j int) bool { return hs[i].Name() < hs[j].Name() })
	for _, h := range hs {
		roles := ea.roles[h]
		// expected roles by parameter type/position: S, Instruction..., Address..., W
		seen := map[string]int{}
		okAll := true
		for i, ro := range roles {
			seen[ro]++
			if strings.HasPrefix(ro, "?") || strings.HasPrefix(ro, "cell@") {
				okAll = false
				r.bad(fmt.Sprintf("%s/param%d", h.Name(), i), w.Pos(h.Pos()), fmt.Sprintf("helper %s parameter %s receives an unclassifiable value %s", h.Name(), h.Params[i].Name(), ro))
			}
		}
		for ro, n := range seen {
			if n > 1 {
				okAll = false
				r.bad(fmt.Sprintf("%s/dup-%s", h.Name(), ro), w.Pos(h.Pos()), fmt.Sprintf("helper %s receives %s in %d parameters", h.Name(), ro, n))
			}
		}
		if okAll {
			r.ok(h.Name(), w.Pos(h.Pos()), "roles "+strings.Join(roles, ","))
		}
	}
}

func ruleFoldArg(w *World, r *RuleResult) {
	ea := analyseExec(w)
	if !execGuard(r, ea) {
		return
	}
	v := ea.v
	c := v.c
	for _, info := range ea.infos {
		ai, _ := c.modeInfo(info.am)
		bi, _ := c.modeInfo(info.bm)
		got := map[string]int{}
		for i := range info.p.Events {
			e := &info.p.Events[i]
			if e.Kind != "call" || (e.Callee != c.a.ReadFold && e.Callee != c.a.WriteFold) {
				continue
			}
			res := &T{Op: "call", S: fnKey(e.Callee), A: e.Args}
			k, ok := v.foldKind(res)
			key := fmt.Sprintf("%s/%s#%d", info.label, e.Callee.Name(), i)
			if !ok {
				r.bad(key, c.posOf(e), fmt.Sprintf("argument %s of %s is neither the executing instruction's A/B field nor (first-level fold of the same chain + field of the cell that fold points at)", e.Args[1].Show(), e.Callee.Name()))
				continue
			}
			mi := ai
			if k.Op == 'B' {
				mi = bi
			}
			if mi.Imm {
				r.bad(key, c.posOf(e), fmt.Sprintf("%s computed although the %c operand is immediate", k, k.Op))
				continue
			}
			if k.Lvl == 2 && (!mi.Indirect || mi.F != k.F) {
				r.bad(key, c.posOf(e), fmt.Sprintf("%s: second-level pointer through field %s but the %c-mode on this path selects %q", k, k.F, k.Op, mi.F))
				continue
			}
			got[k.String()]++
			r.ok(key, c.posOf(e), k.String())
		}
		// required folds: RF(X,1), and for indirect RF(X,2,f); B also needs WF(B,1) [+WF(B,2,f)]
		need := []string{}
		for _, op := range []byte{'A', 'B'} {
			mi := ai
			if op == 'B' {
				mi = bi
			}
			if mi.Imm {
				continue
			}
			need = append(need, ptrKind{RW: 'R', Op: op, Lvl: 1}.String())
			if mi.Indirect {
				need = append(need, ptrKind{RW: 'R', Op: op, Lvl: 2, F: mi.F}.String())
			}
			if op == 'B' || mi.PreDec || mi.PostInc {
				need = append(need, ptrKind{RW: 'W', Op: op, Lvl: 1}.String())
			}
			if op == 'B' && mi.Indirect {
				need = append(need, ptrKind{RW: 'W', Op: op, Lvl: 2, F: mi.F}.String())
			}
		}
		for _, n := range need {
			r.check(got[n] > 0, info.label+"/need-"+n, w.Pos(v.fn.Pos()), "computed", "required pointer "+n+" is never computed on this path")
		}
	}
}

// coreEvents lists the path's core loads/stores with classification.
type coreEv struct {
	i     int
	e     *Event
	store bool
	idx   *T
	f     string
	k     addrKind
	kOK   bool
}

func (v *execView) coreEvents(p *Path) []coreEv {
	var out []coreEv
	for i := range p.Events {
		e := &p.Events[i]
		if e.Kind != "load" && e.Kind != "store" {
			continue
		}
		idx, f, ok := v.c.cell(e.LV)
		if !ok {
			continue
		}
		k, kok := v.addrKind(idx)
		out = append(out, coreEv{i: i, e: e, store: e.Kind == "store", idx: idx, f: f, k: k, kOK: kok})
	}
	return out
}

func ruleFoldLoad(w *World, r *RuleResult) {
	ea := analyseExec(w)
	if !execGuard(r, ea) {
		return
	}
	v := ea.v
	c := v.c
	for _, info := range ea.infos {
		ai, _ := c.modeInfo(info.am)
		bi, _ := c.modeInfo(info.bm)
		var fetches []coreEv
		for _, ce := range v.coreEvents(info.p) {
			if ce.store {
				continue
			}
			key := fmt.Sprintf("%s/load#%d", info.label, ce.i)
			if !ce.kOK {
				r.bad(key, c.posOf(ce.e), "core read at unclassifiable address "+ce.idx.Show())
				continue
			}
			if ce.f == "" {
				fetches = append(fetches, ce)
				continue
			}
			switch {
			case ce.k.Class == "PC":
				r.ok(key, c.posOf(ce.e), "field of executing instruction")
			case ce.k.Class == "ADDR" && ce.k.P.Lvl == 1:
				mi := ai
				if ce.k.P.Op == 'B' {
					mi = bi
				}
				if !mi.Indirect || (ce.f != mi.F) {
					r.bad(key, c.posOf(ce.e), fmt.Sprintf("reads field %s at %s but the %c-mode on this path uses field %q", ce.f, ce.k, ce.k.P.Op, mi.F))
				} else {
					r.ok(key, c.posOf(ce.e), fmt.Sprintf("pointer field %s at %s", ce.f, ce.k))
				}
			default:
				r.bad(key, c.posOf(ce.e), fmt.Sprintf("field %s read at %s: only first-level pointer cells may be read field-wise in the executor", ce.f, ce.k))
			}
		}
		// whole-cell fetches: IR at PC, IRA at RADDR(A, lvl), IRB at RADDR(B, lvl)
		want := []string{"PC", v.fetchAddr('A', ai), v.fetchAddr('B', bi)}
		var gotS []string
		for _, f := range fetches {
			gotS = append(gotS, f.k.String())
		}
		key := info.label + "/fetch"
		if strings.Join(gotS, " ") == strings.Join(want, " ") {
			r.ok(key, w.Pos(v.fn.Pos()), "IR, IRA, IRB fetched at "+strings.Join(want, ", "))
		} else {
			pos := w.Pos(v.fn.Pos())
			if len(fetches) > 0 {
				pos = c.posOf(fetches[len(fetches)-1].e)
			}
			r.bad(key, pos, fmt.Sprintf("whole-instruction fetches at [%s], expected [%s]", strings.Join(gotS, ", "), strings.Join(want, ", ")))
		}
	}
}

func (v *execView) fetchAddr(op byte, mi modeInfo) string {
	if mi.Imm {
		return addrKind{Class: "ADDR"}.String()
	}
	return addrKind{Class: "ADDR", P: ptrKind{RW: 'R', Op: op, Lvl: mi.Lvl, F: mi.F}}.String()
}

// rmwDelta: val == (core[idx].f + M + d) % M with d in {-1,+1}; returns d.
func (c *simCtx) rmwDelta(val, idx *T, f string) (int64, bool) {
	val = stripConv(val)
	if val.Op != "rem" || !c.isM(val.A[1]) {
		return 0, false
	}
	l := linearOf(val.A[0])
	var cellK, mK string
	for k, a := range l.Atom {
		if i2, f2, ok := c.cell(a); ok && f2 == f && i2.Show() == idx.Show() {
			cellK = k
		} else if c.isM(a) {
			mK = k
		} else {
			return 0, false
		}
	}
	if cellK == "" || l.Coef[cellK] != 1 {
		return 0, false
	}
	if l.Const == 1 && (mK == "" || l.Coef[mK] >= 0) {
		return 1, true
	}
	if l.Const == -1 && mK != "" && l.Coef[mK] >= 1 {
		return -1, true
	}
	return 0, false
}

func ruleFoldStore(w *World, r *RuleResult) {
	ea := analyseExec(w)
	if !execGuard(r, ea) {
		return
	}
	v := ea.v
	c := v.c
	for _, info := range ea.infos {
		ai, _ := c.modeInfo(info.am)
		bi, _ := c.modeInfo(info.bm)
		need := map[string]int{}
		for _, op := range []byte{'A', 'B'} {
			mi := ai
			if op == 'B' {
				mi = bi
			}
			if mi.PreDec {
				need[fmt.Sprintf("%c.%s-1", op, mi.F)] = 1
			}
			if mi.PostInc {
				need[fmt.Sprintf("%c.%s+1", op, mi.F)] = 1
			}
		}
		got := map[string]int{}
		for _, ce := range v.coreEvents(info.p) {
			if !ce.store {
				continue
			}
			key := fmt.Sprintf("%s/store#%d", info.label, ce.i)
			if !ce.kOK || ce.k.Class != "ADDR" || ce.k.P.RW != 'W' || ce.k.P.Lvl != 1 {
				ks := "unclassifiable address " + ce.idx.Show()
				if ce.kOK {
					ks = ce.k.String()
				}
				r.bad(key, c.posOf(ce.e), "executor store at "+ks+": side effects must go through the operand's own first-level write-folded pointer")
				continue
			}
			d, ok := c.rmwDelta(ce.e.Val, ce.idx, ce.f)
			if !ok {
				r.bad(key, c.posOf(ce.e), fmt.Sprintf("stored value %s is not (same cell.%s ± 1) mod M without unsigned underflow", ce.e.Val.Show(), ce.f))
				continue
			}
			tag := fmt.Sprintf("%c.%s%+d", ce.k.P.Op, ce.f, d)
			got[tag]++
			if need[tag] == 0 {
				r.bad(key, c.posOf(ce.e), fmt.Sprintf("side effect %s is not prescribed by the addressing modes on this path", tag))
			} else {
				r.ok(key, c.posOf(ce.e), tag+" at "+ce.k.String())
			}
		}
		for tag := range need {
			if got[tag] != 1 {
				r.bad(info.label+"/need-"+tag, w.Pos(v.fn.Pos()), fmt.Sprintf("side effect %s required by the addressing mode occurs %d times on this path", tag, got[tag]))
			}
		}
	}
}

func ruleOrderOperand(w *World, r *RuleResult) {
	ea := analyseExec(w)
	if !execGuard(r, ea) {
		return
	}
	v := ea.v
	c := v.c
	for _, info := range ea.infos {
		// phases: 0 IR fetch; A: 1 predec store, 2 pointer reads, 3 fetch, 4 postinc; B: 5..8; 9 dispatch
		type item struct {
			phase int
			i     int
			what  string
			e     *Event
		}
		var items []item
		nfetch := 0
		for _, ce := range v.coreEvents(info.p) {
			if !ce.kOK {
				continue // reported by FOLD.load/FOLD.store
			}
			base := 0
			if ce.k.Class == "ADDR" {
				op := v.opOf(ce.k.P, info, ce.idx)
				if op == 'B' {
					base = 4
				}
			}
			switch {
			case !ce.store && ce.f == "":
				switch nfetch {
				case 0:
					items = append(items, item{0, ce.i, "IR fetch", ce.e})
				case 1:
					items = append(items, item{3, ce.i, "A fetch", ce.e})
				default:
					items = append(items, item{7, ce.i, "B fetch", ce.e})
				}
				nfetch++
			case !ce.store && ce.k.Class == "ADDR":
				// a read of the pointer cell: part of an RMW (same phase as its store) or a pointer read
				items = append(items, item{-(base + 2), ce.i, fmt.Sprintf("%s pointer read .%s", ce.k, ce.f), ce.e})
			case ce.store:
				d, _ := c.rmwDelta(ce.e.Val, ce.idx, ce.f)
				if d < 0 {
					items = append(items, item{base + 1, ce.i, fmt.Sprintf("pre-decrement %s", ce.k), ce.e})
				} else {
					items = append(items, item{base + 4, ce.i, fmt.Sprintf("post-increment %s", ce.k), ce.e})
				}
			}
		}
		// RMW reads: a pointer read whose loaded term occurs in the very next core store's value belongs to that store
		for k := range items {
			if items[k].phase < 0 {
				ph := -items[k].phase
				if k+1 < len(items) && items[k+1].e.Kind == "store" && items[k+1].e.Val.contains(func(x *T) bool { return x.Key() == items[k].e.LV.Key() }) {
					ph = items[k+1].phase
				}
				items[k].phase = ph
			}
		}
		for i := range info.p.Events {
			e := &info.p.Events[i]
			if c.isPush(e) || (e.Kind == "call" && c.isHelper(e.Callee)) {
				items = append(items, item{9, i, "dispatch", e})
				break
			}
			if rep, ok := c.reportOf(e); ok && rep.TypeOK && rep.Type == c.rt["WarriorTaskTerminate"] {
				items = append(items, item{9, i, "dispatch", e})
				break
			}
		}
		sort.SliceStable(items, func(a, b int) bool { return items[a].i < items[b].i })
		okAll := true
		for k := 1; k < len(items); k++ {
			if items[k].phase < items[k-1].phase {
				okAll = false
				r.bad(fmt.Sprintf("%s/%s-before-%s", info.label, strings.Fields(items[k-1].what)[0], strings.Fields(items[k].what)[0]), c.posOf(items[k].e),
					fmt.Sprintf("%s happens after %s; ICWS'94 evaluates the A operand completely (pre-decrement, pointer reads, fetch, post-increment), then the B operand, then the opcode", items[k].what, items[k-1].what))
				break
			}
		}
		if okAll {
			var s []string
			for _, it := range items {
				s = append(s, it.what)
			}
			r.ok(info.label, w.Pos(v.fn.Pos()), strings.Join(s, " < "))
		}
	}
}

func ruleFoldJump(w *World, r *RuleResult) {
	ea := analyseExec(w)
	if !execGuard(r, ea) {
		return
	}
	v := ea.v
	c := v.c
	for _, info := range ea.infos {
		ai, _ := c.modeInfo(info.am)
		for i := range info.p.Events {
			e := &info.p.Events[i]
			if !c.isPush(e) {
				continue
			}
			key := fmt.Sprintf("%s/push#%d", info.label, i)
			k, ok := v.addrKind(e.Args[1])
			switch {
			case !ok:
				r.bad(key, c.posOf(e), "queued value "+e.Args[1].Show()+" is not PC+1, PC+2 or the read-folded A address")
			case k.Class == "NEXT" && (k.C == 1 || k.C == 2):
				r.ok(key, c.posOf(e), k.String())
			case k.Class == "ADDR" && k.String() == v.fetchAddr('A', ai):
				r.ok(key, c.posOf(e), "jump target "+k.String())
			default:
				r.bad(key, c.posOf(e), fmt.Sprintf("queued value is %s; a jump/split target must be %s", k, v.fetchAddr('A', ai)))
			}
		}
	}
	// helpers: every push argument is the RAB parameter or PC+1 / PC+2
	for _, h := range c.a.Helpers {
		hv, err := newHelperView(ea, h)
		if err != "" {
			r.undecided(h.Name(), w.Pos(h.Pos()), err)
			continue
		}
		for _, p := range hv.paths {
			for i := range p.Events {
				e := &p.Events[i]
				if !c.isPush(e) {
					continue
				}
				key := fmt.Sprintf("%s/%s/push", h.Name(), hv.pathLabel(p))
				a := hv.norm(e.Args[1])
				if a == "RAA" || a == "rem(add(1,PC),M)" || a == "rem(add(2,PC),M)" {
					r.ok(key, c.posOf(e), a)
				} else {
					r.bad(key, c.posOf(e), "helper queues "+a+"; expected the read-folded A address parameter, (PC+1)%M or (PC+2)%M")
				}
			}
		}
	}
}

func ruleFoldLimit(w *World, r *RuleResult) {
	c := newSimCtx(w)
	if len(c.a.Err) > 0 {
		r.undecided("anchors", "-", strings.Join(c.a.Err, "; "))
		return
	}
	for _, x := range []struct {
		f *ssa.Function
		l string
	}{{c.a.ReadFold, c.a.RL}, {c.a.WriteFold, c.a.WL}} {
		fields := map[string]bool{}
		for _, b := range x.f.Blocks {
			for _, in := range b.Instrs {
				if fa, ok := in.(*ssa.FieldAddr); ok {
					if embeddedStruct(derefStruct(fa.X.Type()).Field(fa.Field)) {
						continue // a step towards a promoted field, not a field read
					}
					fields[derefStruct(fa.X.Type()).Field(fa.Field).Name()] = true
				}
			}
		}
		var extra []string
		for f := range fields {
			if f != x.l && f != c.a.MField {
				extra = append(extra, f)
			}
		}
		sort.Strings(extra)
		r.check(len(extra) == 0 && fields[x.l], x.f.Name(), w.Pos(x.f.Pos()), "reads only "+x.l+" and "+c.a.MField, fmt.Sprintf("fold helper reads fields %v besides its own limit %s and the modulus", extra, x.l))
	}
}

func ruleFoldBody(w *World, r *RuleResult) {
	c := newSimCtx(w)
	if len(c.a.Err) > 0 {
		r.undecided("anchors", "-", strings.Join(c.a.Err, "; "))
		return
	}
	for _, x := range []struct {
		f *ssa.Function
		l string
	}{{c.a.ReadFold, c.a.RL}, {c.a.WriteFold, c.a.WL}} {
		paths, err := w.Paths(x.f)
		if err != nil {
			r.undecided(x.f.Name(), w.Pos(x.f.Pos()), err.Error())
			continue
		}
		pname := x.f.Params[1].Name()
		isL := func(t *T) bool { return c.isRecvField(t, x.l) }
		isR := func(t *T) bool {
			t = stripConv(t)
			return t.Op == "rem" && t.A[0].Op == "p" && t.A[0].S == pname && isL(t.A[1])
		}
		seen := map[bool]bool{}
		for _, p := range paths {
			key := fmt.Sprintf("%s/path", x.f.Name())
			if p.End != "ret" || len(p.Ret) != 1 || len(p.Conds) != 1 {
				r.undecided(key, w.Pos(x.f.Pos()), fmt.Sprintf("fold helper is not 'r = p %% L; if r > L/2 { r += M-L }; return r' shaped (%d conditions, end %s)", len(p.Conds), p.End))
				continue
			}
			cd := p.Conds[0]
			at := cd.Atom
			// canonical: r > L/2  ==  lt(quo(L,2), r)
			if at.Op == "le" && at.A[0].Op == "quo" && isL(at.A[0].A[0]) && at.A[0].A[1].IsConstVal(2) && isR(at.A[1]) {
				r.bad(key, w.Pos(cd.Pos), "fold wraps when p%L >= L/2; ICWS'94 wraps only when p%L > L/2, so an offset of exactly L/2 is folded one cell too far (and L=1 folds 0 to M-1)")
				seen[true], seen[false] = true, true
				continue
			}
			if !(at.Op == "lt" && at.A[0].Op == "quo" && isL(at.A[0].A[0]) && at.A[0].A[1].IsConstVal(2) && isR(at.A[1])) {
				r.undecided(key, w.Pos(cd.Pos), "fold condition "+at.Show()+" is not 'p%L > L/2' (an equivalent but differently shaped fold cannot be decided by term comparison)")
				continue
			}
			seen[cd.Val] = true
			ret := p.Ret[0]
			if !cd.Val {
				r.check(isR(ret), fmt.Sprintf("%s/keep", x.f.Name()), w.Pos(cd.Pos), "r <= L/2 returns r = p % L", "on r <= L/2 the helper returns "+ret.Show()+" instead of p % L")
			} else {
				l := linearOf(ret)
				good := len(l.Coef) == 3 && l.Const == 0
				for k, a := range l.Atom {
					switch {
					case isR(a):
						good = good && l.Coef[k] == 1
					case c.isM(a):
						good = good && l.Coef[k] == 1
					case isL(a):
						good = good && l.Coef[k] == -1
					default:
						good = false
					}
				}
				r.check(good, fmt.Sprintf("%s/wrap", x.f.Name()), w.Pos(cd.Pos), "r > L/2 returns r + M - L", "on r > L/2 the helper returns "+l.String()+" instead of r + M - L")
			}
		}
		if !(seen[true] && seen[false]) {
			r.bad(x.f.Name()+"/both", w.Pos(x.f.Pos()), "fold helper lacks one of the two outcomes")
		}
	}
}
