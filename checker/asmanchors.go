package main

// Structural resolution of the assembler / loader anchors, so that renaming an
// unexported function does not blind (or falsely alarm) a rule.  Each anchor is
// found by its signature and, where two functions share one, by what they
// compute; the historical name is only a fallback.

import (
	"go/types"
	"sort"
	"strings"

	"golang.org/x/tools/go/ssa"
)

type AsmAnchors struct {
	OpReader, OpReader88     *ssa.Function // func(string) (OpCode, error)
	ModeReader, ModeReader88 *ssa.Function // func(string) (AddressMode, error)
	ModReader                *ssa.Function // func(string) (OpMode, error)
	Op94                     *ssa.Function // func(string) (OpCode, OpMode, error)
	Default94, Validate88    *ssa.Function // func(OpCode, AddressMode, AddressMode) (OpMode, error)
	ParseAddress             *ssa.Function // func(string, Address) (Address, error)
	EvalExpr                 *ssa.Function // func([]token) (int, error)
	AssembleLine             *ssa.Function // method (sourceLine) (Instruction, error)
	ExpandExpr               *ssa.Function // method ([]token, int) ([]token, error)
	Compile                  *ssa.Function // method () (WarriorData, error) of the compiler type
	NewCompiler              *ssa.Function
	EvalAssertion            *ssa.Function // method (string) error
	EvalAssertions           *ssa.Function // method () error
	LoadConstants            *ssa.Function
	LoadPredefined           *ssa.Function
	GraphCycle, NodeCycle    *ssa.Function
	NewParser                *ssa.Function
	BufNext                  *ssa.Function
	NewBufReader             *ssa.Function
	LoadSymbols              *ssa.Function
	Missing                  []string
}

var asmAnchorsMemo *AsmAnchors

func sigIs(fn *ssa.Function, params []string, results []string, method bool) bool {
	s := fn.Signature
	if (s.Recv() != nil) != method {
		return false
	}
	if s.Params().Len() != len(params) || s.Results().Len() != len(results) {
		return false
	}
	for i, p := range params {
		if typeName(s.Params().At(i).Type()) != p {
			return false
		}
	}
	for i, r := range results {
		if typeName(s.Results().At(i).Type()) != r {
			return false
		}
	}
	return true
}

func funcsWithSig(w *World, params, results []string, method bool) []*ssa.Function {
	var out []*ssa.Function
	for _, fn := range libFuncs(w) {
		if fn.Parent() == nil && sigIs(fn, params, results, method) {
			out = append(out, fn)
		}
	}
	sort.Slice(out, func(i, j int) bool { return out[i].String() < out[j].String() })
	return out
}

func popcount(x uint64) int {
	n := 0
	for ; x != 0; x &= x - 1 {
		n++
	}
	return n
}

func Asm(w *World) *AsmAnchors {
	if asmAnchorsMemo != nil {
		return asmAnchorsMemo
	}
	a := &AsmAnchors{}
	asmAnchorsMemo = a
	byName := func(n string) *ssa.Function { return w.LibFunc(n) }
	// readers: the larger table is the '94 reader, the smaller the '88 restriction
	pick2 := func(res string, big, small **ssa.Function, nb, ns string) {
		fs := funcsWithSig(w, []string{"string"}, []string{res, "error"}, false)
		type cand struct {
			f *ssa.Function
			n int
		}
		var cs []cand
		for _, f := range fs {
			if s, ok := retSet(w, f); ok {
				cs = append(cs, cand{f, popcount(s)})
			}
		}
		sort.Slice(cs, func(i, j int) bool { return cs[i].n > cs[j].n })
		if len(cs) == 2 && cs[0].n > cs[1].n {
			*big, *small = cs[0].f, cs[1].f
		} else {
			*big, *small = byName(nb), byName(ns)
		}
	}
	pick2("OpCode", &a.OpReader, &a.OpReader88, "getOpCode", "getOpCode88")
	pick2("AddressMode", &a.ModeReader, &a.ModeReader88, "getAddressMode", "getAddressMode88")
	one := func(dst **ssa.Function, fs []*ssa.Function, fallback string) {
		if len(fs) == 1 {
			*dst = fs[0]
		} else {
			*dst = byName(fallback)
		}
	}
	one(&a.ModReader, funcsWithSig(w, []string{"string"}, []string{"OpMode", "error"}, false), "getOpMode")
	one(&a.Op94, funcsWithSig(w, []string{"string"}, []string{"OpCode", "OpMode", "error"}, false), "getOp94")
	one(&a.ParseAddress, funcsWithSig(w, []string{"string", "Address"}, []string{"Address", "error"}, false), "parseAddress")
	one(&a.EvalExpr, funcsWithSig(w, []string{"[]token"}, []string{"int", "error"}, false), "evaluateExpression")
	one(&a.GraphCycle, funcsWithSig(w, []string{"map[string][]string"}, []string{"bool", "string"}, false), "graphContainsCycle")
	one(&a.NodeCycle, funcsWithSig(w, []string{"string", "map[string][]string", "[]string"}, []string{"bool", "string"}, false), "nodeContainsCycle")
	// default modifier vs '88 validator: the default table succeeds for every opcode
	{
		fs := funcsWithSig(w, []string{"OpCode", "AddressMode", "AddressMode"}, []string{"OpMode", "error"}, false)
		allOps, _ := w.enumDomain(w.NamedType("OpCode"))
		for _, f := range fs {
			rs, msg := enumRegions(w, f)
			if msg != "" {
				continue
			}
			var okOps uint64
			ops := paramByType(f, "OpCode")
			for _, rg := range rs {
				if len(rg.ret) == 2 && rg.ret[1].Op == "nil" && len(ops) == 1 {
					okOps |= rg.sets[ops[0]]
				}
			}
			if okOps == allOps {
				a.Default94 = f
			} else {
				a.Validate88 = f
			}
		}
		if len(fs) != 2 || a.Default94 == nil || a.Validate88 == nil {
			a.Default94, a.Validate88 = byName("getOpMode94"), byName("getOpModeAndValidate88")
		}
	}
	// compiler methods
	for _, fn := range libFuncs(w) {
		if fn.Parent() != nil {
			continue
		}
		switch {
		case sigIs(fn, []string{"sourceLine"}, []string{"Instruction", "error"}, true):
			a.AssembleLine = fn
		case sigIs(fn, []string{"[]token", "int"}, []string{"[]token", "error"}, true):
			a.ExpandExpr = fn
		}
	}
	if a.AssembleLine == nil {
		a.AssembleLine = w.Method("compiler", "assembleLine")
	}
	if a.ExpandExpr == nil {
		a.ExpandExpr = w.Method("compiler", "expandExpression")
	}
	if a.AssembleLine != nil {
		ct := a.AssembleLine.Signature.Recv().Type()
		for _, fn := range libFuncs(w) {
			if fn.Parent() != nil {
				continue
			}
			s := fn.Signature
			if s.Recv() != nil && types.Identical(s.Recv().Type(), ct) {
				switch {
				case sigIs(fn, nil, []string{"WarriorData", "error"}, true):
					a.Compile = fn
				case sigIs(fn, []string{"string"}, []string{"error"}, true):
					a.EvalAssertion = fn
				case sigIs(fn, nil, []string{"error"}, true):
					a.EvalAssertions = fn
				case sigIs(fn, nil, nil, true):
					// loadConstants defines CORESIZE; loadSymbols calls it
					if definesKey(w, fn, "CORESIZE") {
						a.LoadConstants = fn
					}
				}
			}
			if s.Recv() == nil && s.Results().Len() == 2 && types.Identical(s.Results().At(0).Type(), ct) && typeName(s.Results().At(1).Type()) == "error" {
				a.NewCompiler = fn
			}
		}
		for _, fn := range libFuncs(w) {
			s := fn.Signature
			if fn.Parent() == nil && s.Recv() != nil && types.Identical(s.Recv().Type(), ct) && sigIs(fn, nil, nil, true) && a.LoadConstants != nil && fn != a.LoadConstants {
				for _, call := range w.Callers(a.LoadConstants) {
					if call.Parent() == fn {
						a.LoadSymbols = fn
					}
				}
			}
		}
	}
	for _, fn := range libFuncs(w) {
		if fn.Parent() == nil && fn.Signature.Recv() != nil && fn != a.LoadConstants && sigIs(fn, nil, nil, true) && definesKey(w, fn, "CORESIZE") {
			a.LoadPredefined = fn
		}
	}
	if a.Compile == nil {
		a.Compile = w.Method("compiler", "compile")
	}
	if a.NewCompiler == nil {
		a.NewCompiler = byName("newCompiler")
	}
	if a.EvalAssertion == nil {
		a.EvalAssertion = w.Method("compiler", "evaluateAssertion")
	}
	if a.EvalAssertions == nil {
		a.EvalAssertions = w.Method("compiler", "evaluateAssertions")
	}
	if a.LoadConstants == nil {
		a.LoadConstants = w.Method("compiler", "loadConstants")
	}
	if a.LoadPredefined == nil {
		a.LoadPredefined = w.Method("parser", "loadPredefinedSymbols")
	}
	if a.LoadSymbols == nil {
		a.LoadSymbols = w.Method("compiler", "loadSymbols")
	}
	// parser constructor: returns a pointer to a machine type that has a method returning ([]sourceLine, WarriorData, error)
	for _, fn := range libFuncs(w) {
		if fn.Parent() != nil || fn.Signature.Recv() != nil || fn.Signature.Results().Len() != 1 {
			continue
		}
		pt, ok := fn.Signature.Results().At(0).Type().(*types.Pointer)
		if !ok {
			continue
		}
		nt, ok := pt.Elem().(*types.Named)
		if !ok {
			continue
		}
		ms := w.Prog.MethodSets.MethodSet(pt)
		for i := 0; i < ms.Len(); i++ {
			if f := w.Prog.MethodValue(ms.At(i)); f != nil && sigIs(f, nil, []string{"[]sourceLine", "WarriorData", "error"}, true) {
				a.NewParser = fn
			}
		}
		// buffered token reader: constructor from []token
		if sigIs(fn, []string{"[]token"}, []string{"*" + nt.Obj().Name()}, false) {
			a.NewBufReader = fn
			a.BufNext = w.Method(nt.Obj().Name(), "NextToken")
		}
	}
	if a.NewParser == nil {
		a.NewParser = byName("newParser")
	}
	if a.NewBufReader == nil {
		a.NewBufReader = byName("newBufTokenReader")
		a.BufNext = w.Method("bufTokenReader", "NextToken")
	}
	chk := func(f *ssa.Function, what string) {
		if f == nil {
			a.Missing = append(a.Missing, what)
		}
	}
	chk(a.OpReader, "opcode reader")
	chk(a.OpReader88, "'88 opcode reader")
	chk(a.ModeReader, "addressing-mode reader")
	chk(a.ModeReader88, "'88 addressing-mode reader")
	chk(a.ModReader, "modifier reader")
	chk(a.Op94, "opcode.modifier reader")
	chk(a.Default94, "default-modifier table")
	chk(a.Validate88, "'88 validator")
	chk(a.ParseAddress, "field parser")
	chk(a.EvalExpr, "expression evaluator")
	chk(a.AssembleLine, "line assembler")
	chk(a.ExpandExpr, "symbol expander")
	chk(a.Compile, "compile method")
	chk(a.NewCompiler, "compiler constructor")
	chk(a.EvalAssertion, "assertion evaluator")
	chk(a.EvalAssertions, "assertion driver")
	chk(a.LoadConstants, "predefined-constant loader")
	chk(a.LoadPredefined, "parser's predefined-symbol loader")
	chk(a.GraphCycle, "cycle detector")
	chk(a.NewParser, "parser constructor")
	w.MarkBoundary("assembler anchor", a.OpReader, a.OpReader88, a.ModeReader, a.ModeReader88, a.ModReader, a.Op94, a.Default94, a.Validate88,
		a.ParseAddress, a.EvalExpr, a.AssembleLine, a.ExpandExpr, a.Compile, a.NewCompiler, a.EvalAssertion, a.EvalAssertions, a.LoadConstants,
		a.LoadPredefined, a.GraphCycle, a.NodeCycle, a.NewParser, a.BufNext, a.NewBufReader, a.LoadSymbols)
	return a
}

// definesKey: fn performs a map update with the constant string key.
func definesKey(w *World, fn *ssa.Function, key string) bool {
	for _, b := range fn.Blocks {
		for _, in := range b.Instrs {
			if mu, ok := in.(*ssa.MapUpdate); ok {
				if c, ok := mu.Key.(*ssa.Const); ok && c.Value != nil && strings.Trim(c.Value.ExactString(), `"`) == key {
					return true
				}
			}
		}
	}
	// the key may come out of a table the function loops over
	if ps, err := w.Paths(fn); err == nil {
		for _, p := range ps {
			for _, e := range p.Events {
				if e.Kind == "mapupdate" && len(e.Args) == 1 && e.Args[0].Op == "str" && e.Args[0].S == key && e.Instr.Parent() == fn {
					return true
				}
			}
		}
	}
	return false
}
