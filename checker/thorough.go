package main

// Thorough tier: the quick rules plus (1) a sensitivity self-test of the
// property's rules on scratch copies of the current tree (own mutants, kept
// seeded defects, benign variants), (2) compiler bounds-check obligations for
// the no-panic properties (bounds.go), (3) cross-reference lints (advisory).
// Scratch copies live under os.MkdirTemp and are removed immediately; each
// variant is analysed by a separate process of this binary.

import (
	"context"
	"encoding/json"
	"fmt"
	"os"
	"os/exec"
	"path/filepath"
	"regexp"
	"sort"
	"strings"
	"sync"
	"time"
)

type variantEdit struct {
	Files string `json:"files"`
	Old   string `json:"old"`
	New   string `json:"new"`
}
type variant struct {
	Name  string        `json:"name"`
	Rule  string        `json:"rule"`
	Props []string      `json:"props"`
	Why   string        `json:"why"`
	Edits []variantEdit `json:"edits"`
	Base  string        `json:"base"` // a behaviour-preserving refactoring (path under /verif) the edits are made on top of
	patch string        // seeded defects: path of patch.diff
}

var verifDir = "/verif"

func copyTree(root string) (string, error) {
	d, err := os.MkdirTemp("", "gmars-thorough.")
	if err != nil {
		return "", err
	}
	cmd := exec.Command("rsync", "-a", "--exclude", ".git", "--exclude", "cmd/vmars", root+"/", d+"/")
	if out, err := cmd.CombinedOutput(); err != nil {
		os.RemoveAll(d)
		return "", fmt.Errorf("rsync: %v %s", err, out)
	}
	return d, nil
}

func applyVariant(d string, v *variant) (bool, string) {
	if v.patch != "" {
		cmd := exec.Command("patch", "-p1", "-s", "--fuzz=3", "-d", d, "-i", v.patch)
		if out, err := cmd.CombinedOutput(); err != nil {
			return false, "patch does not apply to the current tree: " + strings.TrimSpace(string(out))
		}
		return true, ""
	}
	if v.Base != "" {
		cmd := exec.Command("patch", "-p1", "-s", "--fuzz=3", "-d", d, "-i", filepath.Join(verifDir, v.Base))
		if out, err := cmd.CombinedOutput(); err != nil {
			return false, "base refactoring does not apply to the current tree: " + strings.TrimSpace(string(out))
		}
	}
	for _, e := range v.Edits {
		hit := 0
		for _, pat := range []string{filepath.Join(d, e.Files), filepath.Join(d, "cmd/gmars", e.Files)} {
			files, _ := filepath.Glob(pat)
			for _, f := range files {
				b, err := os.ReadFile(f)
				if err != nil {
					continue
				}
				s := string(b)
				if strings.Contains(s, e.Old) {
					hit += strings.Count(s, e.Old)
					os.WriteFile(f, []byte(strings.ReplaceAll(s, e.Old, e.New)), 0o644)
				}
			}
		}
		if hit == 0 {
			return false, "old text absent (the tree moved on)"
		}
	}
	return true, ""
}

var firedRe = regexp.MustCompile(`(?m)^\S+: \[([A-Za-z0-9.]+)\]`)

func runSelf(root, prop string) (int, []string, string) {
	self, _ := os.Executable()
	ev, _ := os.MkdirTemp("", "gmars-ev.")
	defer os.RemoveAll(ev)
	ctx, cancel := context.WithTimeout(context.Background(), 5*time.Minute)
	defer cancel()
	cmd := exec.CommandContext(ctx, self, "-prop", prop, "-root", root, "-evidence", ev, "-known", filepath.Join(verifDir, "known_findings.json"))
	out, err := cmd.CombinedOutput()
	code := 0
	if err != nil {
		if ee, ok := err.(*exec.ExitError); ok {
			code = ee.ExitCode()
		} else {
			code = 2
		}
	}
	seen := map[string]bool{}
	var rules []string
	for _, m := range firedRe.FindAllStringSubmatch(string(out), -1) {
		if !seen[m[1]] {
			seen[m[1]] = true
			rules = append(rules, m[1])
		}
	}
	sort.Strings(rules)
	first := ""
	for _, l := range strings.Split(string(out), "\n") {
		if firedRe.MatchString(l) {
			first = l
			if len(first) > 260 {
				first = first[:260]
			}
			break
		}
	}
	return code, rules, first
}

func thorough(w *World, p *Property, results []*RuleResult, extra map[string]any) {
	if d := os.Getenv("VERIF_DIR"); d != "" {
		verifDir = d
	}
	mine := map[string]bool{}
	for _, r := range p.Rules {
		mine[r] = true
	}
	var mutants, benign []*variant
	if b, err := os.ReadFile(filepath.Join(verifDir, "selftest", "mutants.json")); err == nil {
		var vs []*variant
		if json.Unmarshal(b, &vs) == nil {
			for _, v := range vs {
				rel := false
				for _, alt := range strings.Split(v.Rule, "|") {
					if mine[alt] {
						rel = true
					}
				}
				inProps := len(v.Props) == 0
				for _, q := range v.Props {
					if q == p.ID {
						inProps = true
					}
				}
				if rel && inProps {
					mutants = append(mutants, v)
				}
			}
		}
	}
	seeds, _ := filepath.Glob(filepath.Join(verifDir, "seeded", "*", "meta.json"))
	sort.Strings(seeds)
	for _, mp := range seeds {
		b, err := os.ReadFile(mp)
		if err != nil {
			continue
		}
		var meta struct {
			Seed  string   `json:"seed"`
			Prop  string   `json:"breaks_property"`
			Rules []string `json:"rules_that_fired"`
		}
		if json.Unmarshal(b, &meta) != nil || meta.Prop != p.ID {
			continue
		}
		mutants = append(mutants, &variant{Name: "seeded/" + meta.Seed, Rule: "*", patch: filepath.Join(filepath.Dir(mp), "patch.diff")})
	}
	if b, err := os.ReadFile(filepath.Join(verifDir, "selftest", "benign.json")); err == nil {
		json.Unmarshal(b, &benign)
	}
	// behaviour-preserving refactorings written independently of the checker
	refacs, _ := filepath.Glob(filepath.Join(verifDir, "selftest", "refactor", "*", "r*.diff"))
	sort.Strings(refacs)
	for _, rp := range refacs {
		benign = append(benign, &variant{Name: "refactor/" + filepath.Base(filepath.Dir(rp)) + "/" + strings.TrimSuffix(filepath.Base(rp), ".diff"), patch: rp})
	}
	type res struct {
		Name    string   `json:"name"`
		Kind    string   `json:"kind"`
		Verdict string   `json:"verdict"`
		Rules   []string `json:"rules_fired,omitempty"`
		Detail  string   `json:"detail,omitempty"`
	}
	jobs := []struct {
		v    *variant
		kind string
	}{}
	for _, v := range mutants {
		jobs = append(jobs, struct {
			v    *variant
			kind string
		}{v, "mutant"})
	}
	for _, v := range benign {
		jobs = append(jobs, struct {
			v    *variant
			kind string
		}{v, "benign"})
	}
	out := make([]res, len(jobs))
	sem := make(chan struct{}, 8)
	var wg sync.WaitGroup
	for i := range jobs {
		wg.Add(1)
		go func(i int) {
			defer wg.Done()
			sem <- struct{}{}
			defer func() { <-sem }()
			j := jobs[i]
			r := res{Name: j.v.Name, Kind: j.kind}
			d, err := copyTree(w.Root)
			if err != nil {
				r.Verdict, r.Detail = "error", err.Error()
				out[i] = r
				return
			}
			defer os.RemoveAll(d)
			if ok, why := applyVariant(d, j.v); !ok {
				r.Verdict, r.Detail = "skipped", why
				out[i] = r
				return
			}
			code, rules, first := runSelf(d, p.ID)
			r.Rules = rules
			switch j.kind {
			case "mutant":
				hit := false
				if j.v.Rule == "*" {
					hit = code == 1
				} else {
					for _, alt := range strings.Split(j.v.Rule, "|") {
						for _, f := range rules {
							if f == alt {
								hit = true
							}
						}
					}
				}
				if hit {
					r.Verdict = "detected"
				} else {
					r.Verdict = "missed"
				}
				r.Detail = first
			case "benign":
				if code == 0 {
					r.Verdict = "silent"
				} else {
					r.Verdict = "false-alarm"
					r.Detail = first
				}
			}
			out[i] = r
		}(i)
	}
	wg.Wait()
	counts := map[string]int{}
	for _, r := range out {
		counts[r.Kind+"/"+r.Verdict]++
		if r.Verdict == "missed" || r.Verdict == "false-alarm" || r.Verdict == "error" {
			fmt.Printf("SELFTEST %s %s: %s %s\n", r.Kind, r.Name, r.Verdict, r.Detail)
		}
	}
	var ks []string
	for k, v := range counts {
		ks = append(ks, fmt.Sprintf("%s=%d", k, v))
	}
	sort.Strings(ks)
	fmt.Printf("selftest: %s\n", strings.Join(ks, " "))
	extra["selftest"] = map[string]any{
		"what":    "rules of this property run on scratch copies of the current tree: own mutants and independently seeded defects must be reported; benign refactorings must stay silent. Misses/false alarms are about the checker and do not produce a VIOLATION line.",
		"counts":  counts,
		"results": out,
	}
	// lints (advisory)
	extra["lints"] = runLints(w)
}

func runLints(w *World) map[string]any {
	out := map[string]any{"note": "advisory cross-reference only; never decides the property"}
	env := append(os.Environ(), "GOFLAGS=-mod=readonly", "GOWORK=off", "GOPROXY=off", "GOSUMDB=off", "GOTOOLCHAIN=local")
	run := func(name string, args ...string) {
		cmd := exec.Command(args[0], args[1:]...)
		cmd.Dir = w.Root
		cmd.Env = env
		b, err := cmd.CombinedOutput()
		lines := strings.Split(strings.TrimSpace(string(b)), "\n")
		if len(lines) == 1 && lines[0] == "" {
			lines = nil
		}
		if len(lines) > 15 {
			lines = append(lines[:15], fmt.Sprintf("... %d more", len(lines)-15))
		}
		st := "ok"
		if err != nil {
			st = err.Error()
		}
		out[name] = map[string]any{"status": st, "diagnostics": len(lines), "first": lines}
	}
	run("go vet", "go", "vet", ".", "./cmd/gmars")
	if _, err := exec.LookPath("staticcheck"); err == nil {
		run("staticcheck", "staticcheck", ".", "./cmd/gmars")
	}
	if _, err := exec.LookPath("errcheck"); err == nil {
		run("errcheck", "errcheck", ".", "./cmd/gmars")
	}
	return out
}
