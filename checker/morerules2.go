package main

// Third-round rules, added after independently seeded defects were missed:
// PARSE.emit, RECUR.deps, SPAWN.report, DIALECT.agree, FIX.progress, and
// completeness clauses added to CYCLE.detect and SCHED.loop (in their files).

import (
	"fmt"
	"go/types"
	"sort"
	"strings"

	"golang.org/x/tools/go/ssa"
)

func init() {
	register(&Rule{Name: "PARSE.emit", Min: 6, Doc: "a source line in progress is appended to the parser's line list before the parser stops or starts the next line", Run: ruleParseEmit})
	register(&Rule{Name: "RECUR.deps", Min: 1, Doc: "the recursive expander resolves every dependency before substituting: its dependency loop ends only by exhaustion or an error", Run: ruleRecurDeps})
	register(&Rule{Name: "SPAWN.report", Min: 1, Doc: "the spawn report names the load base (where cell 0 of the warrior went), reduced modulo M", Run: ruleSpawnReport})
	register(&Rule{Name: "DIALECT.agree", Min: 4, Doc: "every dialect test in the library is 'Mode == ICWS88' (or its negation): assembler, loader, simulator and listing agree on which modes are '88", Run: ruleDialectAgree})
	register(&Rule{Name: "FIX.progress", Min: 1, Doc: "the substitution fixpoint loop never repeats a state: each iteration expands the previous iteration's result", Run: ruleFixProgress})
}

func parserMachine(w *World) *machine {
	for _, m := range machines(w) {
		ms := w.Prog.MethodSets.MethodSet(types.NewPointer(m.recvT))
		for i := 0; i < ms.Len(); i++ {
			if f := w.Prog.MethodValue(ms.At(i)); f != nil && sigIs(f, nil, []string{"[]sourceLine", "WarriorData", "error"}, true) {
				return m
			}
		}
	}
	return nil
}

func ruleParseEmit(w *World, r *RuleResult) {
	m := parserMachine(w)
	if m == nil {
		r.undecided("anchor", "-", "parser state machine not found")
		return
	}
	st := m.recvT.Underlying().(*types.Struct)
	var linesF, curF, errF string
	for i := 0; i < st.NumFields(); i++ {
		f := st.Field(i)
		switch typeName(f.Type()) {
		case "[]sourceLine":
			linesF = f.Name()
		case "sourceLine":
			curF = f.Name()
		case "error":
			errF = f.Name()
		}
	}
	if linesF == "" || curF == "" {
		r.undecided("fields", "-", "parser fields (line list, current line, error) not resolved")
		return
	}
	g := buildGraph(w, m)
	d := newDedup(r)
	// does a path append the current line to the list? (directly or in an inlined/returned helper path)
	appended := func(t *transition) bool {
		for _, p := range []*Path{t.p, t.hp} {
			if p == nil {
				continue
			}
			for i := range p.Events {
				e := &p.Events[i]
				if e.Kind != "builtin" || e.Method != "append" || len(e.Args) != 2 {
					continue
				}
				if b := stripConv(e.Args[0]); !(b.Op == "sel" && b.S == linesF) {
					continue
				}
				for _, x := range elementsOf(p, e.Args[1]) {
					x = stripConv(x)
					if (x.Op == "sel" && x.S == curF) || x.Op == "struct" {
						return true
					}
				}
			}
		}
		return false
	}
	setsErr := func(t *transition) bool {
		for _, p := range []*Path{t.p, t.hp} {
			if p == nil {
				continue
			}
			for _, e := range p.Events {
				if e.Kind == "store" && e.LV.Op == "sel" && e.LV.S == errF && e.Val.Op != "nil" {
					return true
				}
			}
			// or the error is handed back to the driver as a second result
			if p.End == "ret" && len(p.Ret) > 1 && p.Ret[len(p.Ret)-1].Op != "nil" {
				return true
			}
		}
		return false
	}
	// states that start a fresh line: they assign the current line as a whole
	fresh := map[string]bool{}
	for _, s := range m.states {
		ps, _ := w.Paths(s)
		for _, p := range ps {
			for _, e := range p.Events {
				if e.Kind == "store" && e.LV.Op == "sel" && e.LV.S == curF && e.LV.A[0].Op == "deref" {
					fresh[fnKey(s)] = true
				}
			}
		}
	}
	if len(fresh) == 0 {
		r.undecided("line-start", "-", "no state resets the current line")
		return
	}
	// states in which a line is in progress: reachable from a line-start state without passing one
	for _, n := range g.names {
		if fresh[n] {
			continue
		}
		for _, t := range g.trans[n] {
			if t.to == "<loop>" || t.to == "?" {
				continue
			}
			leaves := t.to == "" || fresh[t.to]
			if !leaves || setsErr(t) {
				continue
			}
			what := "stops"
			if t.to != "" {
				what = "starts the next line (" + t.to + ")"
			}
			d.add(appended(t), n+"/"+map[bool]string{true: "stop", false: "next-line"}[t.to == ""], t.pos, "the line in progress is appended before the parser "+what, "state "+n+" "+what+" without appending the line in progress: a directive or instruction at the very end of the input (or before this transition) is silently lost")
		}
	}
	d.flush()
}

func ruleRecurDeps(w *World, r *RuleResult) {
	aa := Asm(w)
	n := 0
	for _, fn := range libFuncs(w) {
		if fn == aa.NodeCycle || fn.Parent() != nil {
			continue
		}
		rec := false
		for _, b := range fn.Blocks {
			for _, in := range b.Instrs {
				if ci, ok := in.(ssa.CallInstruction); ok && ci.Common().StaticCallee() == fn {
					rec = true
				}
			}
		}
		if !rec {
			continue
		}
		paths, err := w.Paths(fn)
		if err != nil {
			r.undecided(fn.Name(), w.Pos(fn.Pos()), err.Error())
			continue
		}
		// loops containing the recursive call
		hdrs := map[int]bool{}
		for _, p := range paths {
			cur := -1
			for _, e := range p.Events {
				if e.Kind == "enterloop" && e.Res != nil {
					cur = int(e.Res.C)
				}
				if e.Kind == "call" && e.Callee == fn && cur >= 0 {
					hdrs[cur] = true
				}
			}
		}
		for hdr := range hdrs {
			n++
			body := loopBody(fn, hdr)
			bad := ""
			pos := w.Pos(fn.Pos())
			for _, p := range paths {
				// last condition evaluated inside the loop
				last := -1
				for i, cd := range p.Conds {
					if body[cd.Block] {
						last = i
					}
				}
				if last < 0 {
					continue
				}
				leftLoop := false
				if p.End == "ret" {
					leftLoop = true
				}
				if p.End == "backedge" {
					if int(p.Events[len(p.Events)-1].Res.C) != hdr {
						leftLoop = true
					}
				}
				if !leftLoop {
					continue
				}
				cd := p.Conds[last]
				exhausted := cd.Block == hdr && !cd.Val
				errRet := p.End == "ret" && len(p.Ret) > 0 && p.Ret[len(p.Ret)-1].Op != "nil" && last == len(p.Conds)-1
				// a return from inside the loop that is not an error, or continuing after the loop without exhaustion
				if !exhausted && !errRet {
					bad = stripEpoch(cd.Atom).Key()
					pos = w.Pos(cd.Pos)
				}
			}
			key := fmt.Sprintf("%s/dependency-loop", fn.Name())
			if bad != "" {
				r.bad(key, pos, fn.Name()+" leaves its dependency loop early (after testing "+bad+") and goes on to substitute: dependencies after the first already-resolved one are not expanded first, so the result depends on the order in which symbols happen to be resolved (map iteration order)")
			} else {
				r.ok(key, pos, "the loop over dependencies ends only when all are visited or on an error")
			}
		}
	}
	if n == 0 {
		r.note("no recursive expander with a dependency loop")
	}
}

func ruleSpawnReport(w *World, r *RuleResult) {
	c := newSimCtx(w)
	if len(c.a.Err) > 0 || c.a.Spawn == nil {
		r.undecided("anchors", "-", strings.Join(c.a.Err, "; "))
		return
	}
	fn := c.a.Spawn
	paths, err := w.Paths(fn)
	if err != nil {
		r.undecided(fn.Name(), w.Pos(fn.Pos()), err.Error())
		return
	}
	var off string
	for _, p := range fn.Params {
		if typeName(p.Type()) == "Address" {
			off = p.Name()
		}
	}
	// load index: core[(off + i) % M] with i the code index — in the spawn routine itself or in a
	// module function it hands the offset to unchanged
	loadOK := false
	type job struct {
		fn  *ssa.Function
		off string
	}
	seen := map[*ssa.Function]bool{}
	for work := []job{{fn, off}}; len(work) > 0; work = work[1:] {
		j := work[0]
		if seen[j.fn] {
			continue
		}
		seen[j.fn] = true
		jpaths, err := w.Paths(j.fn)
		if err != nil {
			continue
		}
		for _, p := range jpaths {
			for i := range p.Events {
				e := &p.Events[i]
				if e.Kind == "call" && e.Callee != nil && e.Callee.Pkg == fn.Pkg && len(e.Callee.Blocks) > 0 && len(e.Args) == len(e.Callee.Params) {
					for k, a := range e.Args {
						if a = stripConv(a); a.Op == "p" && a.S == j.off {
							work = append(work, job{e.Callee, e.Callee.Params[k].Name()})
						}
					}
				}
				if e.Kind == "store" {
					if idx, f, ok := c.cell(e.LV); ok && f == "" {
						ix := stripConv(idx)
						if ix.Op == "rem" && c.isM(ix.A[1]) {
							// value: Code[i]; index: offset + i (whatever form the loop counter takes)
							l := linearOf(ix.A[0])
							e.Val.walk(func(x *T) bool {
								if x.Op == "elem" && len(x.A) == 2 {
									if isCodeList(w, j.fn, x.A[0], 0) {
										li := linearOf(x.A[1])
										li.Coef[j.off]++
										li.Atom[j.off] = tparam(j.off, nil)
										if l.equal(li) || lockstep(w, j.fn, p, l).equal(lockstep(w, j.fn, p, li)) {
											loadOK = true
										}
									}
								}
								return true
							})
						}
					}
				}
			}
		}
	}
	r.check(loadOK, "load/base+i", w.Pos(fn.Pos()), "cell i of the warrior is stored at (offset + i) % M", "the spawn routine does not store code cell i at (offset + i) % M")
	for _, p := range paths {
		for i := range p.Events {
			e := &p.Events[i]
			rep, ok := c.reportOf(e)
			if !ok || !rep.TypeOK || rep.Type != c.rt["WarriorSpawn"] {
				continue
			}
			a := stripConv(rep.Addr)
			good := false
			why := a.Show()
			if a.Op == "rem" && c.isM(a.A[1]) {
				l := linearOf(a.A[0])
				good = l.Const == 0 && len(l.Coef) == 1 && l.Coef[off] == 1
				why = l.String() + " (mod M)"
			}
			r.check(good, "report/base", c.posOf(e), "spawn report address = offset % M, the cell that received instruction 0", "the spawn report carries "+why+" instead of the load base offset % M: listeners (the state recorder paints [address, address+length)) mark the wrong cells")
		}
	}
}

func ruleDialectAgree(w *World, r *RuleResult) {
	sm := map[string]int64{}
	for v, n := range w.EnumValues("SimulatorMode") {
		sm[n] = v
	}
	d := newDedup(r)
	isMode := func(t *T) bool {
		t = stripConv(t)
		return t.Op == "sel" && t.S == "Mode" && typeName(t.Ty) == "SimulatorMode"
	}
	check := func(fn *ssa.Function, t *T, pos string) {
		t.walk(func(x *T) bool {
			if len(x.A) == 2 && (isMode(x.A[0]) || isMode(x.A[1])) {
				good := x.Op == "eq" && isMode(x.A[0]) && x.A[1].IsConstVal(sm["ICWS88"])
				d.add(good, fn.Name()+"/"+stripEpoch(x).Key(), pos, "dialect test is Mode == ICWS88", "dialect test "+stripEpoch(x).Key()+" in "+fn.Name()+" is not 'Mode == ICWS88': this site treats a different set of modes as ICWS'88 than the assembler, the loader and the listing do (e.g. NOP94 assembled as '94 but listed as '88)")
				return false
			}
			return true
		})
	}
	for _, fn := range libRoots(w) {
		paths, err := w.Paths(fn)
		if err != nil {
			continue
		}
		for _, p := range paths {
			for _, cd := range p.Conds {
				check(fn, cd.Atom, w.Pos(cd.Pos))
			}
			for i := range p.Events {
				e := &p.Events[i]
				if e.Val != nil {
					check(fn, e.Val, w.Pos(instrPosE(e)))
				}
			}
			// refinements on Mode through switch statements
			for k, set := range p.Sets {
				if isMode(p.SetTerms[k]) {
					only88 := set == 1<<uint(sm["ICWS88"])
					all, _ := w.enumDomain(w.NamedType("SimulatorMode"))
					not88 := set == all&^(1<<uint(sm["ICWS88"]))
					d.add(only88 || not88 || set == all, fn.Name()+"/mode-set", w.Pos(fn.Pos()), "paths split the modes into {ICWS88} and the rest", fmt.Sprintf("a path of %s is specialised to the mode set %b, which is neither {ICWS88} nor its complement", fn.Name(), set))
				}
			}
		}
	}
	d.flush()
}

// ruleFixProgress: loops of the symbol expander that are governed by a
// fixpoint test (a pure two-argument call on loop-carried values).  An
// iteration makes progress when the failed test compared a loop-carried value
// with its own successor (the state provably changed), or when the carried
// state cannot reproduce itself: some carried value is replaced by something
// that depends on a replaced value.  An iteration whose carried values are
// all either kept or recomputed from kept values alone reaches the same state
// again, so once the test fails it fails forever.
func ruleFixProgress(w *World, r *RuleResult) {
	aa := Asm(w)
	fn := aa.ExpandExpr
	if fn == nil {
		r.undecided("anchor", "-", "symbol expander not found")
		return
	}
	paths, err := w.Paths(fn)
	if err != nil {
		r.undecided("paths", w.Pos(fn.Pos()), err.Error())
		return
	}
	isTest := func(at *T) bool { return at != nil && at.Op == "call" && len(at.A) == 2 }
	loopsOf := func(t *T) map[int]bool {
		m := map[int]bool{}
		t.contains(func(x *T) bool {
			if x.Op == "loopvar" {
				m[int(x.C)] = true
			}
			return false
		})
		return m
	}
	fix := map[int]string{}
	for _, p := range paths {
		for _, cd := range p.Conds {
			if isTest(cd.Atom) {
				for h := range loopsOf(cd.Atom) {
					if _, ok := fix[h]; !ok {
						fix[h] = w.Pos(cd.Pos)
					}
				}
			}
		}
	}
	if len(fix) == 0 {
		r.undecided("fixpoint-loop", w.Pos(fn.Pos()), "no loop governed by an equality test on loop-carried values found in the symbol expander")
		return
	}
	var hs []int
	for h := range fix {
		hs = append(hs, h)
	}
	sort.Ints(hs)
	for _, h := range hs {
		hdr := fn.Blocks[h]
		var phis []string
		for _, in := range hdr.Instrs {
			if ph, ok := in.(*ssa.Phi); ok {
				phis = append(phis, (&T{Op: "loopvar", S: ph.Comment, C: int64(h), Ty: ph.Type()}).Key())
			}
		}
		if len(phis) == 0 {
			continue
		}
		bad := ""
		n := 0
		for _, p := range paths {
			if p.End != "backedge" {
				continue
			}
			last := p.Events[len(p.Events)-1]
			if int(last.Res.C) != h || len(last.Args) != len(phis) {
				continue
			}
			n++
			// (a) the failed test compared a carried value with its successor
			byTest := false
			for _, cd := range p.Conds {
				if !isTest(cd.Atom) || cd.Val {
					continue
				}
				x, y := cd.Atom.A[0].Key(), cd.Atom.A[1].Key()
				for i, k := range phis {
					nk := last.Args[i].Key()
					if (x == k && y == nk) || (y == k && x == nk) {
						byTest = true
					}
				}
			}
			if byTest {
				continue
			}
			// (b) can the carried state reproduce itself?
			kept := map[string]bool{}
			for i, k := range phis {
				if last.Args[i].Key() == k {
					kept[k] = true
				}
			}
			repeats := true
			for i, k := range phis {
				if kept[k] {
					continue
				}
				nv := last.Args[i]
				if nv.contains(func(x *T) bool { return x.Op == "loopvar" && int(x.C) == h && !kept[x.Key()] }) {
					repeats = false // depends on a value that is itself replaced
				}
				if nv.Op == "const" {
					// the path required a different value of this variable: it cannot be taken twice in a row
					for _, cd := range p.Conds {
						if cd.Atom.Key() == k && cd.Val != (nv.C != 0) {
							repeats = false
						}
					}
				}
			}
			if repeats {
				var ks []string
				for k := range kept {
					ks = append(ks, k)
				}
				sort.Strings(ks)
				bad = "an iteration keeps " + strings.Join(ks, ", ") + " and recomputes every other carried value from those alone"
			}
		}
		var names []string
		for _, in := range hdr.Instrs {
			if ph, ok := in.(*ssa.Phi); ok {
				names = append(names, ph.Comment)
			}
		}
		key := fmt.Sprintf("%s/fixpoint-loop@%s", fn.Name(), strings.Join(names, ","))
		if n == 0 {
			r.undecided(key, fix[h], "the loop has no back edge")
		} else if bad != "" {
			r.bad(key, fix[h], "the substitution fixpoint can repeat its state forever: "+bad+", so when the test fails once it fails on every later iteration (e.g. an EQU whose value expands to nothing: 'x equ ;c' then 'dat x' never returns)")
		} else {
			r.ok(key, fix[h], "every iteration either expands the previous iteration's result or advances a counter")
		}
	}
}
