#!/bin/bash
# usage: keep_seed.sh <name e.g. C01a> <property> "<needs-to-manifest>"
set -eu
name="$1"; prop="$2"; needs="$3"
src=/tmp/seed-out/$name
dst=/verif/seeded/$name
mkdir -p "$dst"
wt=$(mktemp -d /tmp/seedkeep.XXXXXX); rmdir "$wt"
git -C /repo worktree add -q --detach "$wt" HEAD
( cd "$wt" && (git apply "$src/patch.diff" 2>/dev/null || patch -p1 -s --fuzz=3 < "$src/patch.diff") && git diff -- '*.go' > "$dst/patch.diff" )
git -C /repo worktree remove --force "$wt"
[ -f "$src/demo_test.go" ] && cp "$src/demo_test.go" "$dst/demo_test.go"
[ -f "$src/demo.sh" ] && cp "$src/demo.sh" "$dst/demo.sh"
[ -f "$src/notes.md" ] && cp "$src/notes.md" "$dst/notes.md"
python3 - "$name" "$prop" "$needs" <<'P'
import json,sys,subprocess
name,prop,needs=sys.argv[1:4]
head=subprocess.check_output(['git','-C','/repo','rev-parse','--short','HEAD']).decode().strip()
json.dump({"seed":name,"breaks_property":prop,"needs_to_manifest":needs,
 "author":"independent sub-agent given only the property text and a scratch worktree",
 "verified_by":"tools/verify_seed.sh (scratch worktree of /repo at "+head+"): patch applies, `go build . ./cmd/gmars` ok, existing suite passes with patch, demo fails with patch, demo passes without patch",
 "patch_regenerated_against":head},open(f"/verif/seeded/{name}/meta.json","w"),indent=1)
P
echo kept $name
