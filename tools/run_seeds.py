#!/usr/bin/env python3
"""Runs the claimed check of each seeded defect's property on a scratch copy of /repo with the patch applied.
Prints CAUGHT (with the rules that fired) or MISSED per seed; updates seeded/<id>/meta.json."""
import json,os,subprocess,sys,tempfile,shutil,glob,re
from concurrent.futures import ThreadPoolExecutor
os.chdir(os.path.dirname(os.path.abspath(__file__))+"/..")
claimed=set()
for line in subprocess.check_output(["bin/gmarslint","-list"]).decode().splitlines():
    if line.startswith("C"): claimed.add(line.split()[0])
only=sys.argv[1:]
def run(seed):
    meta=json.load(open(f"seeded/{seed}/meta.json"))
    prop=meta["breaks_property"]
    d=tempfile.mkdtemp(prefix="gmars-seed.")
    try:
        subprocess.check_call(["rsync","-a","--exclude",".git","--exclude","cmd/vmars","/repo/",d+"/"])
        r=subprocess.run(["patch","-p1","-s","-d",d,"-i",os.path.abspath(f"seeded/{seed}/patch.diff")],capture_output=True,text=True)
        if r.returncode!=0: return seed,prop,"PATCH-FAILED",[],{}
        res={}
        props=[prop]+[p for p in sorted(claimed) if p!=prop] if "--all" in sys.argv else [prop]
        for p in props:
            if p not in claimed:
                res[p]=("UNCLAIMED",[]); continue
            out=subprocess.run(["bin/gmarslint","-prop",p,"-root",d,"-evidence",d+"/.ev","-known","known_findings.json"],capture_output=True,text=True)
            rules=sorted(set(re.findall(r"^\S+: \[([A-Za-z0-9.]+)\]",out.stdout,re.M)))
            res[p]=("CAUGHT" if out.returncode==1 and "VIOLATION property="+p in out.stdout else ("ERROR" if out.returncode not in (0,1) else "MISSED"),rules)
        return seed,prop,res[prop][0],res[prop][1],res
    finally:
        shutil.rmtree(d,ignore_errors=True)
seeds=sorted(os.path.basename(p) for p in glob.glob("seeded/*") if os.path.isdir(p))
seeds=[s for s in seeds if not [a for a in only if not a.startswith("--")] or s in only]
with ThreadPoolExecutor(6) as ex:
    for seed,prop,verdict,rules,res in ex.map(run,seeds):
        extra=""
        if "--all" in sys.argv:
            extra=" | others: "+", ".join(f"{p}:{v[0]}" for p,v in res.items() if p!=prop and v[0] not in ("MISSED","UNCLAIMED"))
        print(f"{seed} {prop} {verdict} {' '.join(rules)}{extra}")
        mp=f"seeded/{seed}/meta.json"
        m=json.load(open(mp)); m["check_result"]=verdict; m["rules_that_fired"]=rules
        m["ran"]=f"tools/run_seeds.py {seed}  (scratch copy of /repo + patch; bin/gmarslint -prop {prop})"
        json.dump(m,open(mp,"w"),indent=1)
