#!/bin/bash
# usage: trypatch.sh <patch.diff> <rule,rule,...|-prop Cxx>   -- runs the checker on a scratch copy of /repo with the patch applied
set -u
patch="$1"; shift
d=$(mktemp -d /tmp/gmars-mut.XXXXXX)
trap 'rm -rf "$d"' EXIT
rsync -a --exclude .git --exclude cmd/vmars /repo/ "$d/"
( cd "$d" && patch -p1 -s < "$patch" ) || { echo "PATCH FAILED"; exit 3; }
if [ "$1" = "-prop" ]; then
  /verif/bin/gmarslint -root "$d" -prop "$2" -evidence "$d/.ev" -known /verif/known_findings.json
else
  /verif/bin/gmarslint -root "$d" -rules "$1"
fi
