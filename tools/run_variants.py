#!/usr/bin/env python3
"""Applies textual variants (old->new) from a selftest JSON file to scratch copies of the CURRENT /repo and runs
the checker on each.  mode=benign: every claimed property must stay silent; mode=mutant: the named rule must fire.
Variants whose old text is absent are reported as SKIPPED (the tree moved on), never as a pass."""
import json,os,subprocess,sys,tempfile,shutil,glob,re
from concurrent.futures import ThreadPoolExecutor
os.chdir(os.path.dirname(os.path.abspath(__file__))+"/..")
path=sys.argv[1]; mode=sys.argv[2]
props=[l.split()[0] for l in subprocess.check_output(["bin/gmarslint","-list"]).decode().splitlines() if l.startswith("C")]
env=dict(os.environ,GOFLAGS="-mod=mod",GOPROXY="off",GOSUMDB="off",GOTOOLCHAIN="local")
def run(v):
    d=tempfile.mkdtemp(prefix="gmars-var.")
    try:
        subprocess.check_call(["rsync","-a","--exclude",".git","--exclude","cmd/vmars","/repo/",d+"/"])
        if v.get("base"):
            # the variant is made on top of one of the behaviour-preserving refactorings
            r=subprocess.run(["patch","-p1","-s","--fuzz=3","-d",d,"-i",os.path.abspath(v["base"])],capture_output=True,text=True)
            if r.returncode!=0: return v["name"],"SKIPPED","base patch does not apply: "+v["base"]
        for e in v["edits"]:
            hit=0
            for f in glob.glob(os.path.join(d,e["files"]))+glob.glob(os.path.join(d,"cmd/gmars",e["files"])):
                s=open(f).read()
                if e["old"] in s:
                    hit+=s.count(e["old"]); open(f,"w").write(s.replace(e["old"],e["new"]))
            if hit==0: return v["name"],"SKIPPED","old text absent: "+e["old"][:40].replace("\n","\\n")
        b=subprocess.run("go build . ./cmd/gmars && go vet . >/dev/null 2>&1; go test -count=1 -vet=off . 2>&1 | tail -1",shell=True,cwd=d,env=env,capture_output=True,text=True)
        builds=b.returncode==0 and "ok" in b.stdout
        for f in glob.glob(d+"/gmars"): os.remove(f)
        if mode=="benign":
            alarms=[]
            for p in props:
                out=subprocess.run(["bin/gmarslint","-prop",p,"-root",d,"-evidence",d+"/.ev","-known","known_findings.json"],capture_output=True,text=True)
                if out.returncode!=0:
                    lines=[l for l in out.stdout.splitlines() if re.match(r"^\S+: \[",l)]
                    alarms.append(p+": "+(lines[0][:220] if lines else out.stdout[-200:]))
            return v["name"],("SILENT" if not alarms else "FALSE-ALARM")+("" if builds else " (variant does not build/pass tests: "+b.stdout.strip()[-80:]+")"),"; ".join(alarms)
        else:
            want=v["rule"]; ps=v.get("props") or props
            fired=set()
            for p in ps:
                out=subprocess.run(["bin/gmarslint","-prop",p,"-root",d,"-evidence",d+"/.ev","-known","known_findings.json"],capture_output=True,text=True)
                fired|=set(re.findall(r"^\S+: \[([A-Za-z0-9.]+)\]",out.stdout,re.M))
            ok=any(w in fired for w in want.split("|"))
            return v["name"],("DETECTED" if ok else "MISSED")+("" if builds else " (does not build/pass tests)"),"fired: "+" ".join(sorted(fired))
    finally:
        shutil.rmtree(d,ignore_errors=True)
vs=json.load(open(path))
sel=sys.argv[3:]
vs=[v for v in vs if not sel or v["name"] in sel]
bad=0
with ThreadPoolExecutor(6) as ex:
    for name,verdict,info in ex.map(run,vs):
        print(f"{verdict:12s} {name}  {info}")
        if verdict.startswith("FALSE-ALARM") or verdict.startswith("MISSED"): bad+=1
sys.exit(1 if bad else 0)
