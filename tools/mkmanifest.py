#!/usr/bin/env python3
"""Regenerates /verif/MANIFEST.json from the checker's property table (gmarslint -list) and the notes below."""
import json,subprocess,os
os.chdir(os.path.dirname(os.path.abspath(__file__))+"/..")
claimed={}
for line in subprocess.check_output(["bin/gmarslint","-list"]).decode().splitlines():
    if line.startswith("C"):
        parts=line.split()
        claimed[parts[0]]=parts[1:]
notes=json.load(open("tools/manifest_notes.json"))
checks=[]
for pid in sorted(claimed):
    n=notes["claims"].get(pid,{})
    checks.append({
      "property_id":pid,
      "quick_cmd":f"./check.sh {pid} quick",
      "thorough_cmd":f"./check.sh {pid} thorough",
      "evidence_file":f"/verif/evidence/{pid}.json",
      "replay_cmd_template":"cat {path}",
      "engine":"gmarslint",
      "level_claimed":{"category":"other","text":n.get("text","Static analysis of the type-checked SSA of /repo: obligations enumerated per rule and discharged structurally; decides necessary structural clauses of the property, not the behaviour on concrete inputs."),"design_ref":"DESIGN.md section 4 "+pid},
      "level_note":n.get("note","Trusted: go/types, go/ssa v0.29.0, the oracle tables in checker/spec*.go; assumptions A1-A6 of DESIGN.md section 5. Rules run: "+", ".join(claimed[pid])),
      "technique":n.get("technique","static analysis: path-sensitive abstract interpretation over SSA (term domain, value-set refinement), dominance/guard rules; rules "+", ".join(claimed[pid])),
    })
na=[{"property_id":k,"reason":v} for k,v in sorted(notes["not_applicable"].items()) if k not in claimed]
m={"version":1,
 "setup_cmd":"cd checker && GOFLAGS=-mod=mod GOPROXY=off GOSUMDB=off GOTOOLCHAIN=local GOWORK=off go build -o ../bin/gmarslint . && cd .. && mkdir -p evidence",
 "hooks":{"guard":"verif","enable":"none needed: the analyses read the source; no instrumentation is compiled into /repo","baseline_off_cmd":"cd /repo && go test -mod=mod -vet=off -count=1 ./...","source_commits":[],"add_only":True},
 "engines":[{"name":"gmarslint","path":"/verif/checker","serves_properties":sorted(claimed),"kind_free_text":"repository-specific static analyser (go/packages + go/ssa): path-sensitive symbolic term extraction with enum value-set refinement, guard/dominance rules, effect sets, oracle tables"}],
 "checks":checks,
 "notes":notes.get("notes",""),
 "not_applicable":na}
json.dump(m,open("MANIFEST.json","w"),indent=1)
print("claimed",sorted(claimed),"n/a",[x["property_id"] for x in na])
