#!/usr/bin/env python3
"""Runs every claimed check on scratch copies of /repo with an (independently written) behaviour-preserving refactoring applied.
usage: run_refac.py <dir with r*.diff> ...   -> SILENT / FALSE-ALARM per patch"""
import os,subprocess,sys,tempfile,shutil,glob,re
from concurrent.futures import ThreadPoolExecutor
os.chdir(os.path.dirname(os.path.abspath(__file__))+"/..")
props=[l.split()[0] for l in subprocess.check_output(["bin/gmarslint","-list"]).decode().splitlines() if l.startswith("C")]
env=dict(os.environ,GOFLAGS="-mod=mod",GOPROXY="off",GOSUMDB="off",GOTOOLCHAIN="local")
def run(patch):
    d=tempfile.mkdtemp(prefix="gmars-refac.")
    try:
        subprocess.check_call(["rsync","-a","--exclude",".git","--exclude","cmd/vmars","/repo/",d+"/"])
        r=subprocess.run(["patch","-p1","-s","--fuzz=3","-d",d,"-i",os.path.abspath(patch)],capture_output=True,text=True)
        if r.returncode!=0: return patch,"PATCH-FAILED",r.stdout[-200:]
        b=subprocess.run("go build . ./cmd/gmars && go test -count=1 -vet=off . 2>&1 | tail -1",shell=True,cwd=d,env=env,capture_output=True,text=True)
        if "ok" not in b.stdout: return patch,"DOES-NOT-PASS-TESTS",(b.stdout+b.stderr)[-200:]
        for f in glob.glob(d+"/gmars"): os.remove(f)
        alarms=[]
        for p in props:
            try:
                out=subprocess.run(["bin/gmarslint","-prop",p,"-root",d,"-evidence",d+"/.ev","-known","known_findings.json"],capture_output=True,text=True,timeout=300)
            except subprocess.TimeoutExpired:
                alarms.append(p+": TIMEOUT (300 s)"); continue
            if out.returncode!=0:
                lines=[l for l in out.stdout.splitlines() if re.match(r"^\S+: \[",l)]
                alarms.append(p+": "+(lines[0][:260] if lines else out.stdout[-200:]))
        return patch,("SILENT" if not alarms else "FALSE-ALARM"),"\n      ".join(alarms)
    finally:
        shutil.rmtree(d,ignore_errors=True)
patches=[]
for a in sys.argv[1:]:
    patches+=sorted(glob.glob(a+"/r*.diff")) if os.path.isdir(a) else [a]
with ThreadPoolExecutor(4) as ex:
    for patch,verdict,info in ex.map(run,patches):
        print(f"{verdict:12s} {patch}\n      {info}" if info else f"{verdict:12s} {patch}")
