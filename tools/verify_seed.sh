#!/bin/bash
# usage: verify_seed.sh <dir with patch.diff + demo_test.go|demo.sh>  -> prints VERIFIED or reason; exit 0 if verified
set -u
src="$1"
export GOFLAGS=-mod=mod GOPROXY=off GOSUMDB=off GOTOOLCHAIN=local
wt=$(mktemp -d /tmp/seedverify.XXXXXX); rmdir "$wt"
git -C /repo worktree add -q --detach "$wt" HEAD || exit 9
cleanup(){ git -C /repo worktree remove --force "$wt" 2>/dev/null; rm -rf "$wt"; }
trap cleanup EXIT
cd "$wt"
if ! git apply "$src/patch.diff" 2>/dev/null; then
  if ! patch -p1 -s --fuzz=3 < "$src/patch.diff"; then echo "NOT-VERIFIED: patch does not apply"; exit 1; fi
  echo "note: applied with fuzz"
fi
git diff -- '*.go' > /tmp/seed-applied.diff
if ! go build . ./cmd/gmars 2>/tmp/seed-build.log; then echo "NOT-VERIFIED: does not build"; cat /tmp/seed-build.log | head; exit 1; fi
rm -f gmars
if ! go test -count=1 -vet=off . >/tmp/seed-suite.log 2>&1; then echo "NOT-VERIFIED: existing suite fails with patch"; tail -5 /tmp/seed-suite.log; exit 1; fi
if [ -f "$src/demo_test.go" ]; then
  cp "$src/demo_test.go" ./zz_seed_demo_test.go
  if timeout 120 go test -count=1 -vet=off -run 'TestSeed' . >/tmp/seed-demo1.log 2>&1; then echo "NOT-VERIFIED: demo passes WITH the patch"; exit 1; fi
  git checkout -q -- . ; git status --short | grep -v zz_seed >/dev/null
  if ! timeout 120 go test -count=1 -vet=off -run 'TestSeed' . >/tmp/seed-demo2.log 2>&1; then echo "NOT-VERIFIED: demo fails WITHOUT the patch"; tail -8 /tmp/seed-demo2.log; exit 1; fi
elif [ -f "$src/demo.sh" ]; then
  if bash "$src/demo.sh" "$wt" >/tmp/seed-demo1.log 2>&1; then echo "NOT-VERIFIED: demo.sh passes WITH the patch"; exit 1; fi
  git checkout -q -- .
  if ! bash "$src/demo.sh" "$wt" >/tmp/seed-demo2.log 2>&1; then echo "NOT-VERIFIED: demo.sh fails WITHOUT the patch"; tail -8 /tmp/seed-demo2.log; exit 1; fi
else
  echo "NOT-VERIFIED: no demo"; exit 1
fi
echo VERIFIED
