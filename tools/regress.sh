#!/bin/bash
# full regression of the checker: 17 quick checks on /repo, seeds, own mutants, benign variants, refactoring corpus
cd "$(dirname "$0")/.."
export GOFLAGS=-mod=mod GOPROXY=off GOSUMDB=off GOTOOLCHAIN=local
(cd checker && go build -o ../bin/gmarslint .) || exit 2
fail=0
for i in 01 02 03 04 05 06 07 08 09 10 11 12 13 14 15 16 17; do
  out=$(./check.sh C$i quick 2>&1); rc=$?
  if [ $rc -ne 0 ]; then echo "CHECK C$i FAILED rc=$rc"; echo "$out" | grep -B1 VIOLATION | cut -c1-300; fail=1; fi
done
echo "== checks done (fail=$fail)"
[ "$1" = "checks" ] && exit $fail
python3 tools/run_seeds.py --all 2>&1 | grep -v CAUGHT | grep -v WARNING
echo "== seeds done"
python3 tools/run_variants.py selftest/mutants.json mutant 2>&1 | grep -v DETECTED | grep -v WARNING
echo "== mutants done"
python3 tools/run_variants.py selftest/benign.json benign 2>&1 | grep -v SILENT | grep -v WARNING
echo "== benign done"
python3 tools/run_refac.py selftest/refactor/R* 2>&1 | grep -v '^SILENT' | grep -v WARNING | cut -c1-330
echo "== refactorings done"
