#!/bin/bash
# mkscratch.sh <patch> <dir>: scratch copy of /repo (outside /repo and /verif) with a patch applied, for debugging a rule
set -e
rm -rf "$2"; mkdir -p "$2"
rsync -a --exclude .git --exclude cmd/vmars /repo/ "$2/"
patch -p1 -s --fuzz=3 -d "$2" -i "$(realpath "$1")"
