import json,sys
pid,suffix=sys.argv[1],sys.argv[2]
extra=sys.argv[3] if len(sys.argv)>3 else ""
p=json.load(open(f"/tmp/seedprops/{pid}.json"))
wt=f"/tmp/wt-{pid}{suffix}"
out=f"/tmp/seed-out/{pid}{suffix}"
print(f"""You are helping test a verification effort for the Go project bobertlo/gmars (a Core War MARS: Redcode assembler + ICWS'88/'94 simulator). You have your own scratch git worktree of the repository at {wt} (work ONLY there; never touch /repo or /verif, and do not read /verif).

Below is one semantic property that the project is supposed to satisfy. Your job: produce ONE realistic change (a "seeded defect") to the non-test Go source in {wt} that BREAKS this property, while the code still compiles and the ENTIRE existing test suite still passes unchanged. Also produce a demonstration (a Go test file in package gmars, or a small program) that FAILS with your change and PASSES on the unmodified code.

Property {pid}: {p['title']}
Statement: {p['statement']}
Quantifier: {p['quantifier']['text']}
Why the existing tests cannot settle it: {p['why_tests_cant']}
Code anchors: {json.dumps(p['anchors'].get('mechanism',[]))}

Requirements for the change:
- It should look like a plausible maintainer mistake or refactoring slip (small: ideally 1-10 changed lines), NOT sabotage that ordinary use would expose at once. Prefer a change that needs something specific to manifest: an unusual input, a rarely used mode/modifier/limit combination, a multi-step call sequence, a particular interleaving, or two cooperating sites that each look fine alone.
- Do not edit or delete existing tests. Do not add build tags. Only change non-test .go files of the root package (or cmd/gmars if the property is about the CLI).
- The change must really violate the property as stated (observable through the public API / observable effects), not merely be a style change.
{extra}
Environment (sandbox is offline). In every shell call first run:
  export GOFLAGS=-mod=mod GOPROXY=off GOSUMDB=off GOTOOLCHAIN=local
Run the existing suite with:  cd {wt} && go test -count=1 -vet=off .   (all tests must pass with your change; cmd/vmars cannot be built here, ignore it; `go build . ./cmd/gmars` must succeed). If go.mod/go.sum get rewritten by the go tool, restore them with `git checkout go.mod go.sum` before producing the diff.

Deliverables, written to {out}/ :
1. patch.diff  — output of `git -C {wt} diff -- '*.go'` containing ONLY your source change (no test files, no go.mod changes). It must apply cleanly to a pristine checkout with `git apply`.
2. demo_test.go — a self-contained Go test file (package gmars, unique test function name starting with TestSeed) that, when copied into the repository root, PASSES on the pristine code and FAILS on the patched code. (If a program is more natural, e.g. for the CLI, provide demo.sh that exits non-zero only on the patched tree, and explain how to run it.)
3. notes.md — 5-15 lines: what you changed, why it breaks the property, what specific circumstances are needed for it to manifest, and the exact commands you ran to confirm (suite passes with patch; demo fails with patch; demo passes without patch).

Verify all three facts yourself before finishing (NEVER use `git stash` - the stash is shared between all worktrees and other agents work in parallel; instead export a pristine copy with `git archive HEAD | tar -x -C /tmp/<yourdir>` and test there; clean up anything you create under /tmp). In your final message, briefly summarise the change and confirm the three verification results.""")
