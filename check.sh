#!/bin/bash
# usage: ./check.sh <property-id> <quick|thorough>
# Runs the static checker for one property against /repo's current working tree.
# exit 0: property held on everything analysed; exit 1 + "VIOLATION property=<id> replay=<path>": violation.
set -u
cd "$(dirname "$0")"
id="$1"; tier="${2:-quick}"
export GOFLAGS=-mod=mod GOPROXY=off GOSUMDB=off GOTOOLCHAIN=local GOWORK=off
unset GOWORK_FILE 2>/dev/null
export GOWORK=off
if [ ! -x bin/gmarslint ] || [ -n "$(find checker -name '*.go' -newer bin/gmarslint 2>/dev/null | head -1)" ]; then
  mkdir -p bin
  (cd checker && go build -o ../bin/gmarslint .) || { echo "BUILD FAILED"; exit 2; }
fi
ROOT="${GMARS_ROOT:-/repo}"
exec bin/gmarslint -prop "$id" -tier "$tier" -root "$ROOT" -evidence "$(pwd)/evidence" -known "$(pwd)/known_findings.json"
